"""Regenerates the frozen Entries / Faults / Applicable table of spec/Validation.tla from
harness/tables/validation_table.py.  Run:  ./mkvalidation.sh  (uses the repo under VERIF_REPO or /repo)."""
import re
import sys
sys.path.insert(0, "/verif")
from harness import compat  # noqa
from harness.tables import validation_table as VT

rows = VT.rows()
table = {}
for entry, fault, _, _ in rows:
    table.setdefault(entry, set()).add(fault)
q = lambda xs: "{" + ", ".join('"%s"' % x for x in sorted(xs)) + "}"
ent = "Entries == " + q(table)
fl = "Faults == " + q({f for v in table.values() for f in v})
app = "Applicable(e) ==\n    CASE " + "\n    [] ".join('e = "%s" -> %s' % (e, q(table[e])) for e in sorted(table)) + "\n      [] OTHER -> {}\n"
p = "/verif/spec/Validation.tla"
s = open(p).read()
s = re.sub(r"Entries == \{[^\n]*\}", lambda m: ent, s)
s = re.sub(r"Faults == \{[^\n]*\}", lambda m: fl, s)
s = re.sub(r"Applicable\(e\) ==\n.*?\[\] OTHER -> \{\}\n", lambda m: app, s, flags=re.S)
open(p, "w").write(s)
print("pairs:", len(rows), "entries:", len(table))
