"""A joblib backend that runs real threads but lets tasks COMPLETE in a chosen order
(the completion orders come from spec/Parallel.tla).  Batch size is fixed to 1."""
import threading

from joblib import register_parallel_backend
from joblib._parallel_backends import ThreadingBackend


class GatedBackend(ThreadingBackend):
    ORDER = None       # list of 1-based submission indices in completion order
    TIMEOUT = 20.0
    _lock = threading.Condition()
    _count = 0
    _finished = set()
    failures = []

    @classmethod
    def arm(cls, order):
        with cls._lock:
            cls.ORDER = list(order)
            cls._count = 0
            cls._finished = set()
            cls.failures = []

    def compute_batch_size(self):
        return 1

    def _gate(self, func):
        cls = GatedBackend
        with cls._lock:
            cls._count += 1
            idx = cls._count

        def gated(*a, **k):
            res = func(*a, **k)
            order = cls.ORDER
            if order and idx in order:
                before = set(order[:order.index(idx)])
                with cls._lock:
                    ok = cls._lock.wait_for(lambda: before <= cls._finished, timeout=cls.TIMEOUT)
                    if not ok:
                        cls.failures.append("task %d waited too long for %s" % (idx, sorted(before - cls._finished)))
                    cls._finished.add(idx)
                    cls._lock.notify_all()
            else:
                with cls._lock:
                    cls._finished.add(idx)
                    cls._lock.notify_all()
            return res
        return gated

    def submit(self, func, callback=None):
        return super().submit(self._gate(func), callback=callback)

    def apply_async(self, func, callback=None):   # older joblib entry point
        return super().apply_async(self._gate(func), callback=callback)


register_parallel_backend("gated", GatedBackend)
