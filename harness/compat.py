"""Harness-side compatibility layer (DESIGN.md section 1.3).

sktime 0.6.0 was written against numpy 1.19 / pandas 1.1 / scikit-learn 0.24 /
scipy 1.5 / numba.  The sandbox has numpy 2.4 / pandas 2.3 / scikit-learn 1.7 /
scipy 1.18 and no numba.  This module re-creates, *in the harness process only*,
the third-party names and call signatures the 0.6.0 source uses, with the
semantics they had in the library versions the source targets.  It never touches
/repo.  Import it before importing sktime:

    import harness.compat  # noqa

Every entry has a one-line justification.  Nothing here knows about any
property; it is pure API emulation.
"""
import os
import sys
import types
import inspect
import warnings

REPO = os.environ.get("VERIF_REPO", "/repo")
if REPO not in sys.path[:1]:
    sys.path.insert(0, REPO)

warnings.filterwarnings("ignore")

import numpy as np  # noqa: E402
import pandas as pd  # noqa: E402

# --------------------------------------------------------------------------
# numpy: scalar aliases removed in 1.24
for _n, _t in (("int", int), ("float", float), ("bool", bool),
               ("object", object), ("str", str), ("complex", complex)):
    if _n not in np.__dict__:
        setattr(np, _n, _t)

# --------------------------------------------------------------------------
# pandas: index classes removed in 2.0 (Int64Index etc. were plain numeric Index)
for _n in ("Int64Index", "Float64Index", "UInt64Index"):
    if not hasattr(pd, _n):
        setattr(pd, _n, pd.Index)
try:  # pandas.core.indexes.numeric was removed
    import pandas.core.indexes.numeric  # noqa
except Exception:  # pragma: no cover
    _m = types.ModuleType("pandas.core.indexes.numeric")
    _m.Int64Index = _m.Float64Index = _m.UInt64Index = _m.NumericIndex = pd.Index
    sys.modules["pandas.core.indexes.numeric"] = _m

if not hasattr(pd.Index, "is_monotonic"):
    # pandas 1.x: alias of is_monotonic_increasing
    pd.Index.is_monotonic = property(lambda self: self.is_monotonic_increasing)
if not hasattr(pd.Series, "is_monotonic"):
    pd.Series.is_monotonic = property(lambda self: self.is_monotonic_increasing)

if not hasattr(pd.Series, "append"):
    def _series_append(self, to_append, ignore_index=False, verify_integrity=False):
        # pandas 1.x Series.append == concat
        if isinstance(to_append, (list, tuple)):
            parts = [self] + list(to_append)
        else:
            parts = [self, to_append]
        return pd.concat(parts, ignore_index=ignore_index,
                         verify_integrity=verify_integrity)
    pd.Series.append = _series_append

if not hasattr(pd.DataFrame, "append"):
    def _frame_append(self, other, ignore_index=False, verify_integrity=False,
                      sort=False):
        # pandas 1.x DataFrame.append: dict / Series become one row
        if isinstance(other, dict):
            other = pd.DataFrame([other])
            ignore_index = True if ignore_index else ignore_index
        elif isinstance(other, pd.Series):
            if other.name is None and not ignore_index:
                raise TypeError("Can only append a Series if ignore_index=True "
                                "or if the Series has a name")
            row = other.to_frame().T
            if other.name is not None:
                row.index = [other.name]
            other = row.infer_objects()
        elif isinstance(other, list):
            if len(other) and isinstance(other[0], (dict, pd.Series)):
                other = pd.DataFrame(other)
            else:
                return pd.concat([self] + list(other), ignore_index=ignore_index,
                                 verify_integrity=verify_integrity, sort=sort)
        if len(self.columns) == 0 and len(self.index) == 0:
            out = other.copy()
            if ignore_index:
                out = out.reset_index(drop=True)
            return out
        return pd.concat([self, other], ignore_index=ignore_index,
                         verify_integrity=verify_integrity, sort=sort)
    pd.DataFrame.append = _frame_append

if not hasattr(pd.Series, "iteritems"):
    pd.Series.iteritems = pd.Series.items
if not hasattr(pd.DataFrame, "iteritems"):
    pd.DataFrame.iteritems = pd.DataFrame.items

# pd.Index(obj) accepted any sequence-protocol object in pandas 1.x; this is how
# pd.Series(values, index=ForecastingHorizon) worked in 0.6.0.
_orig_index_new = pd.Index.__new__


def _index_new(cls, data=None, *args, **kwargs):
    if (data is not None and hasattr(data, "to_pandas")
            and not isinstance(data, (pd.Index, pd.Series, np.ndarray, list, tuple))):
        try:
            data = data.to_pandas()
        except Exception:
            pass
    return _orig_index_new(cls, data, *args, **kwargs)


pd.Index.__new__ = _index_new

# pd.read_csv(squeeze=) removed in 2.0
_orig_read_csv = pd.read_csv


def _read_csv(*args, **kwargs):
    squeeze = kwargs.pop("squeeze", False)
    out = _orig_read_csv(*args, **kwargs)
    if squeeze and isinstance(out, pd.DataFrame) and out.shape[1] == 1:
        out = out.iloc[:, 0]
    return out


pd.read_csv = _read_csv

# Series.ravel(order) etc. are fine.  DataFrame.lookup unused.

# --------------------------------------------------------------------------
# numba absent: decorators become identity, prange = range
if "numba" not in sys.modules:
    try:
        import numba  # noqa
    except Exception:
        _nb = types.ModuleType("numba")

        def _identity_decorator(*dargs, **dkwargs):
            if len(dargs) == 1 and callable(dargs[0]) and not dkwargs:
                return dargs[0]

            def deco(f):
                return f
            return deco

        _nb.njit = _identity_decorator
        _nb.jit = _identity_decorator
        _nb.generated_jit = _identity_decorator
        _nb.prange = range

        def _vectorize(*dargs, **dkwargs):
            if len(dargs) == 1 and callable(dargs[0]) and not dkwargs:
                return np.vectorize(dargs[0])

            def deco(f):
                return np.vectorize(f)
            return deco

        _nb.vectorize = _vectorize
        _nb.__version__ = "0.0.0-stub"

        class _T:
            def __getattr__(self, k):
                return self

            def __call__(self, *a, **k):
                return self

            def __getitem__(self, k):
                return self
        for _tn in ("int32", "int64", "float32", "float64", "boolean", "types",
                    "typed", "uint32", "uint64", "int8", "uint8", "void", "optional"):
            setattr(_nb, _tn, _T())
        _nbc = types.ModuleType("numba.core")
        _nbt = types.ModuleType("numba.typed")
        _nbt.List = list
        _nbt.Dict = dict
        _nb.typed = _nbt
        sys.modules["numba"] = _nb
        sys.modules["numba.core"] = _nbc
        sys.modules["numba.typed"] = _nbt

# --------------------------------------------------------------------------
# scikit-learn
import sklearn  # noqa: E402
import sklearn.base  # noqa: E402

if not hasattr(sklearn.base, "_pprint"):
    def _pprint(params, offset=0, printer=repr):
        # sklearn <0.23 helper used by sktime.base._meta / __repr__
        options = np.get_printoptions()
        np.set_printoptions(precision=5, threshold=64, edgeitems=2)
        params_list = list()
        this_line_length = offset
        line_sep = ",\n" + (1 + offset // 2) * " "
        for i, (k, v) in enumerate(sorted(params.items())):
            if type(v) is float:
                this_repr = "%s=%s" % (k, str(v))
            else:
                this_repr = "%s=%s" % (k, printer(v))
            if len(this_repr) > 500:
                this_repr = this_repr[:300] + "..." + this_repr[-100:]
            if i > 0:
                if this_line_length + len(this_repr) >= 75 or "\n" in this_repr:
                    params_list.append(line_sep)
                    this_line_length = len(line_sep)
                else:
                    params_list.append(", ")
                    this_line_length += 2
            params_list.append(this_repr)
            this_line_length += len(this_repr)
        np.set_printoptions(**options)
        lines = "".join(params_list)
        lines = "\n".join(l.rstrip(" ") for l in lines.split("\n"))
        return lines
    sklearn.base._pprint = _pprint

import sklearn.model_selection._search as _sk_search  # noqa: E402

if not hasattr(_sk_search, "_check_param_grid"):
    def _check_param_grid(param_grid):
        # sklearn 0.24 semantics
        if hasattr(param_grid, "items"):
            param_grid = [param_grid]
        for p in param_grid:
            for name, v in p.items():
                if isinstance(v, np.ndarray) and v.ndim > 1:
                    raise ValueError("Parameter array should be one-dimensional.")
                if isinstance(v, str) or not isinstance(v, (np.ndarray,) + (list, tuple)):
                    raise ValueError(
                        "Parameter grid for parameter ({0}) needs to"
                        " be a list or numpy array, but got ({1})."
                        " Single values need to be wrapped in a list"
                        " with one element.".format(name, type(v)))
                if len(v) == 0:
                    raise ValueError(
                        "Parameter values for parameter ({0}) need "
                        "to be a non-empty sequence.".format(name))
    _sk_search._check_param_grid = _check_param_grid

import sklearn.utils.metaestimators as _sk_meta  # noqa: E402

if not hasattr(_sk_meta, "if_delegate_has_method"):
    from functools import update_wrapper

    class _IffHasAttrDescriptor:
        # sklearn 0.24 implementation
        def __init__(self, fn, delegate_names, attribute_name):
            self.fn = fn
            self.delegate_names = delegate_names
            self.attribute_name = attribute_name
            update_wrapper(self, fn)

        def __get__(self, obj, type=None):
            if obj is not None:
                for delegate_name in self.delegate_names:
                    try:
                        delegate = _attrgetter(delegate_name)(obj)
                    except AttributeError:
                        continue
                    else:
                        getattr(delegate, self.attribute_name)
                        break
                else:
                    _attrgetter(self.delegate_names[-1])(obj)

            def out(*args, **kwargs):
                return self.fn(obj, *args, **kwargs)
            update_wrapper(out, self.fn)
            return out

    from operator import attrgetter as _attrgetter

    def if_delegate_has_method(delegate):
        if isinstance(delegate, list):
            delegate = tuple(delegate)
        if not isinstance(delegate, tuple):
            delegate = (delegate,)
        return lambda fn: _IffHasAttrDescriptor(fn, delegate,
                                                attribute_name=fn.__name__)
    _sk_meta.if_delegate_has_method = if_delegate_has_method

try:
    import sklearn.neighbors._base as _sk_nb
    if not hasattr(_sk_nb, "_check_weights"):
        def _check_weights(weights):
            if weights in (None, "uniform", "distance"):
                return weights
            elif callable(weights):
                return weights
            else:
                raise ValueError("weights not recognized: should be 'uniform', "
                                 "'distance', or a callable function")
        _sk_nb._check_weights = _check_weights
except Exception:  # pragma: no cover
    pass

# _check_reg_targets: old signature (y_true, y_pred, multioutput[, dtype]) -> 4-tuple.
import sklearn.metrics._regression as _sk_reg  # noqa: E402

_orig_check_reg_targets = _sk_reg._check_reg_targets
_crt_params = list(inspect.signature(_orig_check_reg_targets).parameters)


def _old_check_reg_targets(y_true, y_pred, multioutput, dtype="numeric"):
    from sklearn.utils.validation import check_array, check_consistent_length, column_or_1d  # noqa
    check_consistent_length(y_true, y_pred)
    y_true = check_array(y_true, ensure_2d=False, dtype=dtype)
    y_pred = check_array(y_pred, ensure_2d=False, dtype=dtype)
    if y_true.ndim == 1:
        y_true = y_true.reshape((-1, 1))
    if y_pred.ndim == 1:
        y_pred = y_pred.reshape((-1, 1))
    if y_true.shape[1] != y_pred.shape[1]:
        raise ValueError("y_true and y_pred have different number of output "
                         "({0}!={1})".format(y_true.shape[1], y_pred.shape[1]))
    n_outputs = y_true.shape[1]
    allowed = ("raw_values", "uniform_average", "variance_weighted")
    if isinstance(multioutput, str):
        if multioutput not in allowed:
            raise ValueError("Allowed 'multioutput' string values are {}. "
                             "You provided multioutput={!r}".format(allowed, multioutput))
    elif multioutput is not None:
        multioutput = check_array(multioutput, ensure_2d=False)
        if n_outputs == 1:
            raise ValueError("Custom weights are useful only in multi-output cases.")
        elif n_outputs != len(multioutput):
            raise ValueError("There must be equally many custom weights (%d) as "
                             "outputs (%d)." % (len(multioutput), n_outputs))
    y_type = "continuous" if n_outputs == 1 else "continuous-multioutput"
    return y_type, y_true, y_pred, multioutput


def _check_reg_targets_dispatch(*args, **kwargs):
    # sktime 0.6.0 calls it positionally with exactly three arguments
    # (y_true, y_pred, multioutput) and unpacks four results; sklearn 1.7 calls
    # it with (y_true, y_pred, sample_weight, multioutput, ...) and unpacks five.
    if len(args) == 3 and not kwargs:
        caller = sys._getframe(1).f_globals.get("__name__", "")
        if caller.startswith("sktime"):
            return _old_check_reg_targets(*args)
    return _orig_check_reg_targets(*args, **kwargs)


_sk_reg._check_reg_targets = _check_reg_targets_dispatch

# mean_squared_error(squared=) removed in sklearn 1.6
import sklearn.metrics as _sk_metrics  # noqa: E402

_orig_mse = _sk_metrics.mean_squared_error
if "squared" not in inspect.signature(_orig_mse).parameters:
    def mean_squared_error(y_true, y_pred, *, sample_weight=None,
                           multioutput="uniform_average", squared=True):
        if squared:
            return _orig_mse(y_true, y_pred, sample_weight=sample_weight,
                             multioutput=multioutput)
        return _sk_metrics.root_mean_squared_error(
            y_true, y_pred, sample_weight=sample_weight, multioutput=multioutput)
    _sk_metrics.mean_squared_error = mean_squared_error
    _sk_reg.mean_squared_error = mean_squared_error

# Forest base classes: base_estimator= keyword renamed estimator= in 1.2
import sklearn.ensemble._forest as _sk_forest  # noqa: E402
import sklearn.ensemble._base as _sk_ens_base  # noqa: E402

_orig_base_ens_init = _sk_ens_base.BaseEnsemble.__init__
if "base_estimator" not in inspect.signature(_orig_base_ens_init).parameters:
    for _cls in (_sk_forest.ForestClassifier, _sk_forest.ForestRegressor,
                 _sk_forest.BaseForest):
        _o = _cls.__init__

        def _mk(_o):
            def __init__(self, *args, base_estimator=None, **kwargs):
                if base_estimator is not None and "estimator" not in kwargs and not args:
                    kwargs["estimator"] = base_estimator
                _o(self, *args, **kwargs)
                if base_estimator is not None:
                    self.base_estimator = base_estimator
            return __init__
        _cls.__init__ = _mk(_o)

# --------------------------------------------------------------------------
# scipy.stats.morestats removed; sktime imports private helpers from it
import scipy.stats  # noqa: E402
import scipy.stats._morestats as _sm  # noqa: E402

_mm = types.ModuleType("scipy.stats.morestats")
for _k in dir(_sm):
    setattr(_mm, _k, getattr(_sm, _k))
if not hasattr(_mm, "_boxcox_conf_interval"):
    from scipy import optimize as _opt
    from scipy.stats import distributions as _dist

    def _boxcox_conf_interval(x, lmax, alpha):
        # scipy 1.5 implementation
        fac = 0.5 * _dist.chi2.ppf(1 - alpha, 1)
        target = _sm.boxcox_llf(lmax, x) - fac

        def rootfunc(lmbda, data, target):
            return _sm.boxcox_llf(lmbda, data) - target
        newlm = lmax + 0.5
        N = 0
        while (rootfunc(newlm, x, target) > 0.0) and (N < 500):
            newlm += 0.1
            N += 1
        if N == 500:
            raise RuntimeError("Could not find endpoint.")
        lmplus = _opt.brentq(rootfunc, lmax, newlm, args=(x, target))
        newlm = lmax - 0.5
        N = 0
        while (rootfunc(newlm, x, target) > 0.0) and (N < 500):
            newlm -= 0.1
            N += 1
        if N == 500:
            raise RuntimeError("Could not find endpoint.")
        lmminus = _opt.brentq(rootfunc, newlm, lmax, args=(x, target))
        return lmminus, lmplus
    _mm._boxcox_conf_interval = _boxcox_conf_interval
sys.modules["scipy.stats.morestats"] = _mm
scipy.stats.morestats = _mm


def assert_repo_sktime():
    """Machinery guard: the code under verification must come from REPO."""
    import sktime
    f = os.path.realpath(sktime.__file__)
    if not f.startswith(os.path.realpath(REPO) + os.sep):
        sys.stderr.write("MACHINERY: sktime imported from %s, not %s\n" % (f, REPO))
        sys.exit(2)
    if sktime.__version__ != "0.6.0":
        sys.stderr.write("MACHINERY: sktime version %s\n" % sktime.__version__)
        sys.exit(2)
    return sktime
