"""Runnable-scope registry of non-forecaster estimators (DESIGN.md 1.5), used by C04, C12, C14, C16, C17.
Each entry: name, kind in {series-transformer, panel-transformer, classifier, regressor}, factory, the
apply-type methods it offers, and flags (invertible, needs positive data, multivariate ok ...).
Fixed in git; an entry that stops working on a changed tree is reported as a violation."""
import numpy as np


def ncol(entry):
    """Number of panel columns an entry is exercised with."""
    return entry.get("ncol", 2 if entry["name"].startswith("column_ensemble") else 1)


def always_seasonal(y, sp=None):
    return True


def never_seasonal(y, sp=None):
    return False


def series_transformers():
    from sktime.transformations.series.detrend import Detrender, Deseasonalizer, ConditionalDeseasonalizer
    from sktime.transformations.series.boxcox import BoxCoxTransformer, LogTransformer
    from sktime.transformations.series.impute import Imputer
    from sktime.transformations.series.outlier_detection import HampelFilter
    from sktime.transformations.series.cos import CosineTransformer
    from sktime.transformations.series.acf import AutoCorrelationTransformer, PartialAutoCorrelationTransformer
    from sktime.transformations.series.adapt import TabularToSeriesAdaptor
    from sktime.transformations.series.compose import OptionalPassthrough
    from sktime.forecasting.trend import PolynomialTrendForecaster
    from sklearn.preprocessing import StandardScaler, MinMaxScaler
    L = []

    def add(name, f, inverse=False, positive=False, same_index=True, missing=False, update=False):
        L.append({"name": name, "kind": "series-transformer", "factory": f,
                  "methods": ["transform"] + (["inverse_transform"] if inverse else []),
                  "inverse": inverse, "positive": positive, "same_index": same_index, "missing": missing,
                  "update": update, "frame": False})
    add("detrender", lambda: Detrender(), inverse=True, update=True)
    add("detrender_poly2", lambda: Detrender(PolynomialTrendForecaster(degree=2)), inverse=True, update=True)
    add("deseason_add", lambda: Deseasonalizer(sp=4), inverse=True, update=True)
    add("deseason_mul", lambda: Deseasonalizer(sp=3, model="multiplicative"), inverse=True, positive=True, update=True)
    add("cond_deseason", lambda: ConditionalDeseasonalizer(sp=4, seasonality_test=always_seasonal), inverse=True,
        update=True)
    add("cond_deseason_off", lambda: ConditionalDeseasonalizer(sp=4, seasonality_test=never_seasonal), inverse=True,
        update=True)
    add("boxcox", lambda: BoxCoxTransformer(), inverse=True, positive=True)
    add("boxcox_pearsonr", lambda: BoxCoxTransformer(method="pearsonr"), inverse=True, positive=True)
    # bounds whose edge at 0 the search usually ends next to (a fitted exponent of a few 1e-6, not 0)
    add("boxcox_bounds_pos", lambda: BoxCoxTransformer(bounds=(0, 2)), inverse=True, positive=True)
    add("boxcox_bounds_neg", lambda: BoxCoxTransformer(bounds=(-2, 0)), inverse=True, positive=True)
    add("log", lambda: LogTransformer(), inverse=True, positive=True)
    add("adapt_standard", lambda: TabularToSeriesAdaptor(StandardScaler()), inverse=True)
    add("adapt_minmax", lambda: TabularToSeriesAdaptor(MinMaxScaler()), inverse=True)
    add("optpass_on", lambda: OptionalPassthrough(LogTransformer(), passthrough=True), inverse=True, positive=True)
    add("optpass_off", lambda: OptionalPassthrough(LogTransformer(), passthrough=False), inverse=True, positive=True)
    # the flag as a numpy boolean, as it comes out of a parameter grid built from an array
    add("optpass_np_false", lambda: OptionalPassthrough(LogTransformer(), passthrough=np.bool_(False)), inverse=True, positive=True)
    add("optpass_np_true", lambda: OptionalPassthrough(LogTransformer(), passthrough=np.bool_(True)), inverse=True, positive=True)

    # an inner transformer that learns from the data it is fitted on
    add("optpass_minmax", lambda: OptionalPassthrough(TabularToSeriesAdaptor(MinMaxScaler()), passthrough=False), inverse=True)
    add("optpass_boxcox", lambda: OptionalPassthrough(BoxCoxTransformer(), passthrough=False), inverse=True, positive=True)

    def reconfigured():
        # fitted once as a real transformer, then switched to passthrough with set_params (fit follows)
        import pandas as pd
        o = OptionalPassthrough(LogTransformer(), passthrough=False)
        o.fit(pd.Series([1.0, 2.0, 3.0, 4.0]))
        return o.set_params(passthrough=True)
    add("optpass_reconfigured", reconfigured, inverse=True, positive=True)

    def reconfigured_nested():
        # fitted with one seasonal period, re-configured through a nested parameter (fit follows)
        import pandas as pd
        o = OptionalPassthrough(Deseasonalizer(sp=3), passthrough=False)
        o.fit(pd.Series([5.0, 7.0, 6.0, 8.0, 10.0, 9.0, 11.0, 13.0, 12.0]))
        return o.set_params(transformer__sp=4)
    add("optpass_deseason_reconfigured", reconfigured_nested, inverse=True)
    add("adapt_standard_frame", lambda: TabularToSeriesAdaptor(StandardScaler()), inverse=True)
    L[-1]["frame"] = True
    add("adapt_minmax_frame", lambda: TabularToSeriesAdaptor(MinMaxScaler()), inverse=True)
    L[-1]["frame"] = True
    add("cosine", lambda: CosineTransformer())
    add("acf", lambda: AutoCorrelationTransformer(n_lags=4), same_index=False)
    add("pacf", lambda: PartialAutoCorrelationTransformer(n_lags=3), same_index=False)
    add("hampel", lambda: HampelFilter(window_length=5), missing=True)
    for m in ("drift", "linear", "nearest", "mean", "median", "ffill", "bfill"):
        add("imputer_" + m, (lambda mm: lambda: Imputer(method=mm))(m), missing=True)
    add("imputer_placeholder", lambda: Imputer(method="mean", missing_values=-999.0), missing=True)
    L[-1]["placeholder"] = -999.0
    add("imputer_constant", lambda: Imputer(method="constant", value=7.0), missing=True)
    add("imputer_random", lambda: Imputer(method="random", random_state=3), missing=True)
    return L


def panel_transformers():
    from sktime.transformations.panel.padder import PaddingTransformer
    from sktime.transformations.panel.truncation import TruncationTransformer
    from sktime.transformations.panel.interpolate import TSInterpolator
    from sktime.transformations.panel.reduce import Tabularizer
    from sktime.transformations.panel.compose import (ColumnConcatenator, SeriesToPrimitivesRowTransformer,
                                                      SeriesToSeriesRowTransformer)
    from sktime.transformations.panel.dictionary_based import PAA, SAX
    from sktime.transformations.panel.segment import (IntervalSegmenter, RandomIntervalSegmenter,
                                                      SlidingWindowSegmenter)
    from sktime.transformations.panel.summarize import (RandomIntervalFeatureExtractor, PlateauFinder,
                                                        DerivativeSlopeTransformer)
    from sktime.transformations.panel.pca import PCATransformer
    from sktime.transformations.panel.dwt import DWTTransformer
    from sktime.transformations.panel.hog1d import HOG1DTransformer
    from sktime.transformations.panel.slope import SlopeTransformer
    from sktime.transformations.series.cos import CosineTransformer
    from sklearn.preprocessing import FunctionTransformer
    L = []

    def add(name, f, rowwise=True, multivariate=True):
        L.append({"name": name, "kind": "panel-transformer", "factory": f, "methods": ["transform"],
                  "rowwise": rowwise, "multivariate": multivariate})
    add("padder", lambda: PaddingTransformer(pad_length=15))
    add("truncation", lambda: TruncationTransformer(lower=2, upper=8))
    # lengths learned in fit, on panels of unequal-length series (nested container only)
    add("truncation_fitted", lambda: TruncationTransformer())
    L[-1]["unequal"] = True
    add("padder_fitted", lambda: PaddingTransformer())
    L[-1]["unequal"] = True
    add("interpolator", lambda: TSInterpolator(7))
    add("tabularizer", lambda: Tabularizer())
    L[-1]["ncol"] = 2          # two columns: the column-then-time order of the flattened output matters
    add("column_concat", lambda: ColumnConcatenator())
    L[-1]["ncol"] = 2
    add("paa", lambda: PAA(num_intervals=5))
    add("paa3_len10", lambda: PAA(num_intervals=3))
    L[-1]["tp"] = 10        # 10 / 3: fractional frames whose rounding goes through the last-frame fallback
    add("sax", lambda: SAX(word_length=4, alphabet_size=3, window_size=6), multivariate=False)
    add("interval_segmenter", lambda: IntervalSegmenter(3), multivariate=False)
    add("random_interval_segmenter", lambda: RandomIntervalSegmenter(n_intervals=3, random_state=0), multivariate=False)
    # the number of intervals itself drawn at random (from the seeded generator)
    add("random_interval_segmenter_rand", lambda: RandomIntervalSegmenter(n_intervals="random", random_state=0), multivariate=False)
    add("random_interval_features_rand", lambda: RandomIntervalFeatureExtractor(n_intervals="random", random_state=0),
        multivariate=False)
    add("sliding_segmenter", lambda: SlidingWindowSegmenter(window_length=3), multivariate=False)
    add("random_interval_features", lambda: RandomIntervalFeatureExtractor(n_intervals=3, random_state=0),
        multivariate=False)
    add("plateau", lambda: PlateauFinder(), multivariate=False)
    add("derivative_slope", lambda: DerivativeSlopeTransformer(), multivariate=False)
    add("pca", lambda: PCATransformer(n_components=2), multivariate=False)
    add("dwt", lambda: DWTTransformer(num_levels=2))
    add("hog1d", lambda: HOG1DTransformer(num_intervals=2, num_bins=4))
    add("slope", lambda: SlopeTransformer(num_intervals=3))
    add("row_cosine", lambda: SeriesToSeriesRowTransformer(CosineTransformer(), check_transformer=False))
    add("row_mean", lambda: SeriesToPrimitivesRowTransformer(FunctionTransformer(np.mean, validate=False),
                                                             check_transformer=False))
    return L


def classifiers():
    from sktime.classification.interval_based import TimeSeriesForestClassifier
    from sktime.classification.dictionary_based import BOSSEnsemble, ContractableBOSS, IndividualBOSS
    from sktime.classification.compose import ColumnEnsembleClassifier
    from sktime.classification.interval_based import RandomIntervalSpectralForest, SupervisedTimeSeriesForest
    from sktime.classification.dictionary_based import MUSE, IndividualTDE
    L = []

    def add(name, f, multivariate=False, cost="fast"):
        L.append({"name": name, "kind": "classifier", "factory": f, "methods": ["predict", "predict_proba"],
                  "multivariate": multivariate, "cost": cost})
    add("tsf", lambda: TimeSeriesForestClassifier(n_estimators=4, random_state=0))
    add("tsf10", lambda: TimeSeriesForestClassifier(n_estimators=10, random_state=0))
    add("tsf_jobs2", lambda: TimeSeriesForestClassifier(n_estimators=4, random_state=0, n_jobs=2))
    add("individual_boss", lambda: IndividualBOSS(window_size=6, word_length=4, random_state=0), cost="slow")
    add("boss_ensemble", lambda: BOSSEnsemble(max_ensemble_size=3, random_state=0), cost="slow")
    # an even number of members: tied votes, broken by the seeded generator
    add("boss_ensemble_even", lambda: BOSSEnsemble(max_ensemble_size=4, random_state=3), cost="slow")
    add("cboss", lambda: ContractableBOSS(n_parameter_samples=5, max_ensemble_size=3, random_state=0), cost="slow")
    add("rise", lambda: RandomIntervalSpectralForest(n_estimators=4, min_interval=4, acf_lag=6, acf_min_values=2, random_state=0))
    add("stsf", lambda: SupervisedTimeSeriesForest(n_estimators=4, random_state=0))
    add("stsf10", lambda: SupervisedTimeSeriesForest(n_estimators=10, random_state=1))
    # word selection by chi-squared test switched off (p_threshold=1): with it, a panel in which no word is
    # significant leaves MUSE without features (open finding MUSE-empty-bag, exercised by C17 only)
    add("muse", lambda: MUSE(p_threshold=1, random_state=0))
    add("individual_tde", lambda: IndividualTDE(random_state=0))
    add("individual_tde_mv", lambda: IndividualTDE(random_state=0), multivariate=True)      # two dimensions
    L[-1]["ncol"] = 2
    add("muse_mv", lambda: MUSE(p_threshold=1, random_state=0), multivariate=True)
    L[-1]["ncol"] = 2
    add("column_ensemble", lambda: ColumnEnsembleClassifier(
        [("a", TimeSeriesForestClassifier(n_estimators=3, random_state=0), [0]),
         ("b", TimeSeriesForestClassifier(n_estimators=3, random_state=1), [1])]), multivariate=True)
    add("column_ensemble_drop", lambda: ColumnEnsembleClassifier(
        [("a", TimeSeriesForestClassifier(n_estimators=3, random_state=0), [0]),
         ("skipped", "drop", [1]),
         ("b", TimeSeriesForestClassifier(n_estimators=2, random_state=1), [1])]), multivariate=True)
    return L


def regressors():
    from sktime.regression.interval_based import TimeSeriesForestRegressor
    return [{"name": "tsf_regressor", "kind": "regressor", "methods": ["predict"], "multivariate": False,
             "factory": lambda: TimeSeriesForestRegressor(n_estimators=4, random_state=0), "cost": "fast"}]


def make_panel(n_instances, n_columns, n_timepoints, seed, cells="series", labels=None, noise=0.5, unequal=False):
    """Deterministic small panel (nested DataFrame) + labels.  unequal: instance i has n_timepoints - 2 * (i % 3)
    time points (every third instance has the full length, the shortest length is n_timepoints - 4)."""
    import pandas as pd
    rng = np.random.RandomState(seed)
    labels = labels if labels is not None else [0, 1]
    y = np.array([labels[i % len(labels)] for i in range(n_instances)], dtype=object if isinstance(labels[0], str) else None)
    cols = {}
    for c in range(n_columns):
        col = []
        for i in range(n_instances):
            k = i % len(labels)
            base = np.sin(np.arange(n_timepoints) * (0.4 + 0.5 * k)) * (2 + k) + 3 * k + 0.3 * c
            v = base + rng.rand(n_timepoints) * noise
            if unequal:
                v = v[:n_timepoints - 2 * (i % 3)]
            col.append(pd.Series(v) if cells == "series" else v)
        cols["dim_%d" % c] = col
    return pd.DataFrame(cols), y
