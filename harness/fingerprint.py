"""Canonical fingerprints (30-bit integers) of data containers, results and estimators' public state."""
import hashlib

import numpy as np
import pandas as pd


def _canon(o, h, depth=0):
    if depth > 8:
        h.update(b"<deep>")
        return
    if isinstance(o, np.ndarray):
        h.update(b"A" + str(o.dtype).encode() + str(o.shape).encode())
        if o.dtype == object:
            for x in o.ravel():
                _canon(x, h, depth + 1)
        else:
            h.update(np.ascontiguousarray(o).tobytes())
    elif isinstance(o, pd.Series):
        h.update(b"S")
        _canon(np.asarray(o.index), h, depth + 1)
        _canon(o.to_numpy(), h, depth + 1)
    elif isinstance(o, pd.DataFrame):
        h.update(b"D" + repr(list(o.columns)).encode())
        _canon(np.asarray(o.index), h, depth + 1)
        for c in o.columns:
            _canon(o[c].to_numpy(), h, depth + 1)
    elif isinstance(o, pd.Index):
        _canon(np.asarray(o), h, depth + 1)
    elif isinstance(o, (list, tuple)):
        h.update(b"L%d" % len(o))
        for x in o:
            _canon(x, h, depth + 1)
    elif isinstance(o, dict):
        h.update(b"M")
        for k in sorted(o, key=repr):
            h.update(repr(k).encode())
            _canon(o[k], h, depth + 1)
    elif isinstance(o, (int, float, str, bool, type(None), np.generic)):
        h.update(repr(o).encode())
    elif hasattr(o, "get_params"):
        h.update(b"E" + type(o).__name__.encode())
        try:
            _canon(o.get_params(deep=False), h, depth + 1)
        except Exception:
            pass
        for k in sorted(vars(o)):
            if k.endswith("_") and not k.startswith("_"):
                h.update(k.encode())
                _canon(getattr(o, k), h, depth + 1)
    elif callable(o):
        h.update(b"F" + getattr(o, "__name__", "fn").encode())
    else:
        h.update(b"O" + type(o).__name__.encode())


def fp(o):
    h = hashlib.sha256()
    _canon(o, h)
    return int(h.hexdigest()[:8], 16) % (2 ** 30 - 1) + 1    # never 0 (0 = "not yet" in the spec)
