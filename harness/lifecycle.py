"""Replay of Forecaster.tla behaviours into real forecasters (C03, C10).

A behaviour is the `hist` emitted by MCForecaster.tla: a list of calls, each with
the specification's expected snapshot.  run_history() executes the calls on a real
forecaster and returns, per call, what the implementation showed.  compare()
names the clauses that differ.  Values are tokens of (time, version).
"""
import copy
import math
import warnings

import numpy as np
import pandas as pd

REJECT = (ValueError, TypeError, NotImplementedError)


def value(t, ver):
    return 100.0 + 2.5 * t + 10.0 * math.sin(1.3 * t) + 37.0 * (ver - 1)


def series(pairs, origin, index_kind):
    """pairs: [[t, ver], ...] sorted by t (contiguous)."""
    ts = [p[0] for p in pairs]
    vals = [value(p[0], p[1]) for p in pairs]
    if not ts:
        return pd.Series([], dtype=float, index=pd.Index([], dtype="int64"))
    if index_kind == "range":
        idx = pd.RangeIndex(ts[0] + origin, ts[-1] + origin + 1)
    else:
        idx = pd.Index(np.array(ts, dtype="int64") + origin)
    return pd.Series(vals, index=idx)


def batch(lo, hi, ver, origin, index_kind):
    return series([[t, ver] for t in range(lo, hi + 1)], origin, index_kind)


def xframe(y):
    """Exogenous data travelling with a batch: a function of the same (time, version) tokens."""
    return pd.DataFrame({"x1": 0.5 * y.values + 3.0, "x2": np.cos(y.values / 7.0)}, index=y.index)


def fh_arg(fh, origin, variant=0):
    from sktime.forecasting.base import ForecastingHorizon
    if not fh["steps"]:
        return None
    if fh["rel"]:
        v = variant % 5
        if v == 0:
            return list(fh["steps"])
        if v == 1:
            return np.array(fh["steps"])
        if v == 2:
            return ForecastingHorizon(list(fh["steps"]), is_relative=True)
        if v == 3:   # any order, as an integer index: the horizon is a set of steps
            return pd.Index(list(reversed(fh["steps"])), dtype="int64")
        return list(reversed(fh["steps"])) if len(fh["steps"]) > 1 else int(fh["steps"][0])
    times = [s + origin for s in fh["steps"]]
    if variant % 2:
        return ForecastingHorizon(pd.Index(list(reversed(times)), dtype="int64"), is_relative=False)
    return ForecastingHorizon(times, is_relative=False)


def make_cv(cv):
    from sktime.forecasting.model_selection import SlidingWindowSplitter, ExpandingWindowSplitter
    if cv["kind"] == "sliding":
        return SlidingWindowSplitter(fh=list(cv["fh"]), window_length=cv["wl"], step_length=cv["sl"],
                                     start_with_window=cv["sww"])
    return ExpandingWindowSplitter(fh=list(cv["fh"]), initial_window=cv["wl"], step_length=cv["sl"],
                                   start_with_window=cv["sww"])


def _vals(s):
    return [float(x) for x in np.asarray(s, dtype=float).ravel()]


def norm_update_predict(res, fhsteps, origin):
    """Normalise update_predict output to cells [{cut, times, vals}]."""
    cells = []
    if isinstance(res, pd.DataFrame):
        for c in res.columns:
            col = res[c].dropna()
            cells.append({"cut": int(c) - origin, "times": [int(i) - origin for i in col.index],
                          "vals": _vals(col.values)})
    else:
        if len(fhsteps) == 1:
            for i, v in zip(res.index, res.values):
                cells.append({"cut": int(i) - origin - fhsteps[0], "times": [int(i) - origin],
                              "vals": [float(v)]})
        else:  # single window, several steps
            cells.append({"cut": int(res.index[0]) - origin - fhsteps[0],
                          "times": [int(i) - origin for i in res.index], "vals": _vals(res.values)})
    return cells


def run_history(factory, hist, origin=0, index_kind="range", want_ref=False, fhvariant=0, exog=False):
    """Execute hist on factory(); returns list of observations (one per call).
    If want_ref, update_predict steps also carry 'ref': the cells obtained from the
    corresponding sequence of update / predict calls on a deep copy."""
    warnings.filterwarnings("ignore")
    f = factory()
    out = []
    for step in hist:
        op = step["op"]
        o = {"rej": False}
        try:
            if op == "fit":
                y = batch(step["lo"], step["hi"], step["ver"], origin, index_kind)
                fh = fh_arg(step["fh"], origin, fhvariant)
                kwx = {"X": xframe(y)} if exog else {}
                r = f.fit(y, fh=fh, **kwx) if fh is not None else f.fit(y, **kwx)
                o["self"] = r is f
            elif op == "update":
                y = batch(step["lo"], step["hi"], step["ver"], origin, index_kind)
                r = f.update(y, X=xframe(y) if exog else None, update_params=bool(step["upd"]))
                o["self"] = r is f
            elif op == "predict":
                fh = fh_arg(step["fh"], origin, fhvariant)
                p = f.predict(fh) if fh is not None else f.predict()
                o["times"] = [int(i) - origin for i in p.index]
                o["vals"] = _vals(p.values)
            elif op == "ups":
                y = batch(step["lo"], step["hi"], step["ver"], origin, index_kind)
                fh = fh_arg(step["fh"], origin, fhvariant)
                if exog:       # update_predict_single does not accept exogenous data for window forecasters
                    f.update(y, X=xframe(y), update_params=bool(step["upd"]))
                    p = f.predict(fh) if fh is not None else f.predict()
                else:
                    p = f.update_predict_single(y, fh=fh, update_params=bool(step["upd"]))
                o["times"] = [int(i) - origin for i in p.index]
                o["vals"] = _vals(p.values)
            elif op == "upd_predict":
                y = batch(step["lo"], step["hi"], step["ver"], origin, index_kind)
                ref = None
                if want_ref and not step["exp"]["rej"]:
                    g = copy.deepcopy(f)
                    ref = []
                    for c in step["exp"]["cells"]:
                        yb = batch(c["blo"], c["bhi"], step["ver"], origin, index_kind)
                        g.update(yb, update_params=bool(step["upd"]))
                        p = g.predict(list(step["cv"]["fh"]))
                        ref.append({"cut": int(g.cutoff) - origin,
                                    "times": [int(i) - origin for i in p.index], "vals": _vals(p.values)})
                res = f.update_predict(y, cv=make_cv(step["cv"]), update_params=bool(step["upd"]))
                o["cells"] = norm_update_predict(res, list(step["cv"]["fh"]), origin)
                if ref is not None:
                    o["ref"] = ref
        except REJECT as e:
            o = {"rej": True, "exc": type(e).__name__, "msg": str(e)[:120]}
        except Exception as e:
            o = {"rej": False, "crash": type(e).__name__ + ": " + str(e)[:160]}
        try:
            o["fitted"] = bool(f.is_fitted)
            c = f.cutoff
            o["cutoff"] = (int(c) - origin) if c is not None else -1
        except Exception as e:
            o["crash"] = "state: " + type(e).__name__
        out.append(o)
        if "crash" in o:
            break
    return out, f


def close(a, b):
    if len(a) != len(b):
        return False
    return all((math.isnan(x) and math.isnan(y)) or abs(x - y) <= 1e-7 * max(1.0, abs(x), abs(y))
               for x, y in zip(a, b))


def twin_predict(factory, step, fit_fh, eff_fh, origin, index_kind, exog=False):
    """Forecast of a fresh forecaster brought to the same abstract state by the
    canonical history fit(epoch) [; update(rest, update_params=False)]."""
    exp = step["exp"]
    g = factory()
    ep = exp["epoch"]
    ob = exp["obs"]
    y0 = series(ep, origin, index_kind)
    fh0 = fh_arg(fit_fh, origin)
    kwx = {"X": xframe(y0)} if exog else {}
    g.fit(y0, fh=fh0, **kwx) if fh0 is not None else g.fit(y0, **kwx)
    epd = {p[0]: p[1] for p in ep}
    diff = [p for p in ob if epd.get(p[0]) != p[1]]
    if diff:
        yd = series(diff, origin, index_kind)
        g.update(yd, X=xframe(yd) if exog else None, update_params=False)
    fh = fh_arg(eff_fh, origin)
    p = g.predict(fh) if fh is not None else g.predict()
    return [int(i) - origin for i in p.index], _vals(p.values)
