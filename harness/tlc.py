"""Thin wrapper around TLC (tla2tools 1.8) for the three modes of DESIGN.md 2.2.

* exhaustive(): model-check spec/<Module>.tla with a cfg, parse states / distinct
  states / per-action coverage, detect invariant violations.
* emit(): same run, but collects the JSON vectors the spec prints with
  PrintT(ToJson(...)) (each printed as a quoted JSON string on its own line).
* judge(): trace validation -- hands an ndjson file to a Trace*.tla module via
  the TRACE_FILE environment variable and parses ACCEPT / DEV / REJECT lines.
* simulate(): `-simulate file=...` behaviours parsed into lists of states.

Machinery failures (parse errors, TLC crash, timeouts) raise TLCError -> exit 2.
"""
import json
import os
import re
import shutil
import subprocess
import time

VERIF = os.path.dirname(os.path.dirname(os.path.abspath(__file__)))
SPEC = os.path.join(VERIF, "spec")
JAR = "/opt/veriftools/tla/tla2tools.jar"
CM = None
for cand in ("/opt/veriftools/tla/CommunityModules-deps.jar",
             "/opt/veriftools/tla/CommunityModules.jar"):
    if os.path.exists(cand):
        CM = cand
        break


class TLCError(Exception):
    pass


class TLCResult:
    def __init__(self):
        self.stdout = ""
        self.generated = 0
        self.distinct = 0
        self.violation = None      # name of violated invariant / property
        self.error = None          # evaluation error text
        self.printed = []          # decoded JSON vectors (emit)
        self.tuples = []           # parsed <<...>> PrintT tuples as lists of str
        self.coverage = {}         # action name -> (distinct, total)
        self.wall = 0.0
        self.rc = 0

    @property
    def ok(self):
        return self.violation is None and self.error is None


_RE_STATES = re.compile(r"(\d+) states generated, (\d+) distinct states found")
_RE_INV = re.compile(r"Invariant (\S+) is violated")
_RE_PROP = re.compile(r"(Temporal properties were violated|Action property (\S+) is violated)")
_RE_COV = re.compile(r"^<(\w+) line \d+, col \d+ to line \d+, col \d+ of module (\w+)>: (\d+):(\d+)")


def _java_cmd(module, cfg, workers, metadir, extra):
    cp = JAR if CM is None else JAR + ":" + CM
    cmd = ["java", "-XX:+UseParallelGC", "-Xmx8g", "-cp", cp, "tlc2.TLC",
           "-config", cfg, "-workers", str(workers), "-metadir", metadir,
           "-noGenerateSpecTE"]
    cmd += list(extra)
    cmd.append(module)
    return cmd


def run(module, cfg, workdir, workers=8, env=None, timeout=900, extra=(),
        deadlock=False, coverage=False, dfs=False):
    """Run TLC on spec/<module>.tla with spec/cfg/<cfg>. Returns TLCResult."""
    os.makedirs(workdir, exist_ok=True)
    metadir = os.path.join(workdir, "meta-%s-%d" % (os.path.basename(cfg), os.getpid()))
    shutil.rmtree(metadir, ignore_errors=True)
    cfg_path = cfg if os.path.isabs(cfg) else os.path.join(SPEC, "cfg", cfg)
    if not os.path.exists(cfg_path):
        raise TLCError("missing cfg " + cfg_path)
    ex = list(extra)
    if not deadlock:
        ex += ["-deadlock"]
    if coverage:
        ex += ["-coverage", "1"]
    e = dict(os.environ)
    e.pop("JAVA_TOOL_OPTIONS", None)
    if dfs:
        e["JAVA_TOOL_OPTIONS"] = "-Dtlc2.tool.queue.IStateQueue=StateDeque"
    if env:
        e.update({k: str(v) for k, v in env.items()})
    cmd = _java_cmd(module, cfg_path, workers, metadir, ex)
    t0 = time.time()
    try:
        p = subprocess.run(cmd, cwd=SPEC, env=e, stdout=subprocess.PIPE,
                           stderr=subprocess.STDOUT, timeout=timeout, text=True)
    except subprocess.TimeoutExpired:
        subprocess.run(["pkill", "-f", metadir], check=False)
        raise TLCError("TLC timeout after %ss: %s %s" % (timeout, module, cfg))
    finally:
        shutil.rmtree(metadir, ignore_errors=True)
    r = TLCResult()
    r.wall = time.time() - t0
    r.stdout = p.stdout
    r.rc = p.returncode
    for line in p.stdout.splitlines():
        m = _RE_STATES.search(line)
        if m:
            r.generated, r.distinct = int(m.group(1)), int(m.group(2))
        m = _RE_INV.search(line)
        if m:
            r.violation = m.group(1)
        m = _RE_PROP.search(line)
        if m:
            r.violation = m.group(2) or "temporal"
        m = _RE_COV.match(line)
        if m:
            r.coverage[m.group(1)] = (int(m.group(3)), int(m.group(4)))
        if line.startswith('"') and line.endswith('"') and len(line) > 2:
            try:
                r.printed.append(json.loads(json.loads(line)))
            except Exception:
                pass
        elif line.startswith("<<") and line.endswith(">>"):
            r.tuples.append(_parse_tuple(line))
    if "Error:" in p.stdout and r.violation is None:
        # deadlock / evaluation errors / parse errors
        idx = p.stdout.index("Error:")
        r.error = p.stdout[idx:idx + 1500]
    if "Model checking completed" not in p.stdout and "Finished in" not in p.stdout \
            and r.violation is None and r.error is None:
        r.error = "TLC did not finish: " + p.stdout[-1500:]
    return r


def _parse_tuple(line):
    """Parse a printed TLA+ tuple of strings / ints: <<"REJECT", 12, "clause">>."""
    inner = line[2:-2]
    out = []
    for tok in re.findall(r'"(?:[^"\\]|\\.)*"|-?\d+|TRUE|FALSE', inner):
        if tok.startswith('"'):
            out.append(tok[1:-1])
        elif tok in ("TRUE", "FALSE"):
            out.append(tok == "TRUE")
        else:
            out.append(int(tok))
    return out


def must(r, what):
    """Exhaustive run must complete without violation; else machinery/spec error."""
    if r.error:
        raise TLCError("%s: TLC error\n%s" % (what, r.error))
    return r


def write_ndjson(path, records):
    os.makedirs(os.path.dirname(path), exist_ok=True)
    with open(path, "w") as f:
        for rec in records:
            f.write(json.dumps(rec, separators=(",", ":"), sort_keys=True))
            f.write("\n")


def judge(module, cfg, trace_path, workdir, n_lines, timeout=1800, env=None, dfs=False):
    """Trace validation. The trace spec prints one tuple per non-accepted line:
         <<"REJECT", tid, clause>>  or <<"DEV", tid, devname>>
       and <<"DONE", consumed>> at the end (POSTCONDITION). Returns
       (rejects {tid:[clauses]}, devs {tid:[names]}, result)."""
    e = {"TRACE_FILE": trace_path}
    if env:
        e.update(env)
    r = run(module, cfg, workdir, workers=1, env=e, timeout=timeout, dfs=dfs)
    if r.error:
        raise TLCError("judge %s: %s" % (module, r.error))
    if r.violation:
        raise TLCError("judge %s: unexpected violation %s\n%s" % (module, r.violation, r.stdout[-2000:]))
    rejects, devs, done = {}, {}, None
    for t in r.tuples:
        if not t:
            continue
        if t[0] == "REJECT":
            rejects.setdefault(t[1], []).append(t[2] if len(t) > 2 else "?")
        elif t[0] == "DEV":
            devs.setdefault(t[1], []).append(t[2])
        elif t[0] == "DONE":
            done = t[1]
    if done != n_lines:
        raise TLCError("judge %s consumed %r of %d lines\n%s" % (module, done, n_lines, r.stdout[-3000:]))
    return rejects, devs, r


def simulate(module, cfg, workdir, num, depth, seed, timeout=600, env=None):
    """Run `-simulate file=...` and return list of behaviours; a behaviour is a
    list of (action_name, state_text)."""
    simdir = os.path.join(workdir, "sim")
    shutil.rmtree(simdir, ignore_errors=True)
    os.makedirs(simdir)
    r = run(module, cfg, workdir, workers=1, env=env, timeout=timeout,
            extra=["-simulate", "file=%s/tr,num=%d" % (simdir, num), "-depth", str(depth),
                   "-seed", str(seed)])
    behs = []
    for fn in sorted(os.listdir(simdir)):
        txt = open(os.path.join(simdir, fn)).read()
        steps = []
        for m in re.finditer(r"\\\* <?(\w+)[^\n]*\nSTATE_\d+ ==\s*(.*?)(?=\n\n|\Z)", txt, re.S):
            steps.append((m.group(1), m.group(2)))
        behs.append(steps)
    shutil.rmtree(simdir, ignore_errors=True)
    return behs, r
