"""Recording / scripted stub estimators (DESIGN.md 2.3).  They observe which data the
library hands to wrapped estimators without touching /repo.  All logs are module-level
so that sklearn.clone()d copies (same constructor params) write to the same place."""
import numpy as np
from sklearn.base import BaseEstimator, RegressorMixin

LOG = {}          # tag -> list of events
COUNTER = {}      # tag -> number of predict calls


def reset(tag):
    LOG[tag] = []
    COUNTER[tag] = 0


class RecordingRegressor(BaseEstimator, RegressorMixin):
    """Tabular / time-series regressor stub: logs fit(X, y) and predict(X); the k-th predict
    call returns the token 100000 + 100*k + j for output column j."""

    def __init__(self, tag="r"):
        self.tag = tag

    def fit(self, X, y):
        X = np.asarray(X, dtype=float)
        y = np.asarray(y, dtype=float)
        self.n_outputs_ = 1 if y.ndim == 1 else y.shape[1]
        self.ydim_ = y.ndim
        LOG.setdefault(self.tag, []).append(
            {"ev": "fit", "ndim": X.ndim, "shape": list(X.shape),
             "X": X.reshape(X.shape[0], -1).tolist(),
             "y": (y.reshape(-1, 1) if y.ndim == 1 else y).tolist(), "ydim": int(y.ndim)})
        return self

    def predict(self, X):
        X = np.asarray(X, dtype=float)
        COUNTER[self.tag] = COUNTER.get(self.tag, 0) + 1
        k = COUNTER[self.tag]
        LOG.setdefault(self.tag, []).append(
            {"ev": "predict", "ndim": X.ndim, "shape": list(X.shape), "X": X.reshape(X.shape[0], -1).tolist()})
        n = X.shape[0]
        if getattr(self, "ydim_", 1) == 1:
            out = np.full(n, 100000.0 + 100 * k)
            return np.asarray(out[0]) if n == 1 else out   # 0-d for one row (numpy>=2.4, DESIGN 1.4a)
        return np.tile(100000.0 + 100 * k + np.arange(self.n_outputs_), (n, 1))
