"""Recording / scripted stub estimators (DESIGN.md 2.3).  They observe which data the
library hands to wrapped estimators without touching /repo.  All logs are module-level
so that sklearn.clone()d copies (same constructor params) write to the same place."""
import numpy as np
from sklearn.base import BaseEstimator, RegressorMixin

LOG = {}          # tag -> list of events
COUNTER = {}      # tag -> number of predict calls


def reset(tag):
    LOG[tag] = []
    COUNTER[tag] = 0


class RecordingRegressor(RegressorMixin, BaseEstimator):
    """Tabular / time-series regressor stub: logs fit(X, y) and predict(X); the k-th predict
    call returns the token 100000 + 100*k + j for output column j."""

    def __init__(self, tag="r", frac=0.0):
        self.tag = tag
        self.frac = frac      # outputs are lowered by frac, so that a truncation to integers shows after rounding

    def fit(self, X, y):
        X = np.asarray(X, dtype=float)
        y = np.asarray(y, dtype=float)
        self.n_outputs_ = 1 if y.ndim == 1 else y.shape[1]
        self.ydim_ = y.ndim
        LOG.setdefault(self.tag, []).append(
            {"ev": "fit", "ndim": X.ndim, "shape": list(X.shape),
             "X": X.reshape(X.shape[0], -1).tolist(),
             "y": (y.reshape(-1, 1) if y.ndim == 1 else y).tolist(), "ydim": int(y.ndim)})
        return self

    def predict(self, X):
        X = np.asarray(X, dtype=float)
        COUNTER[self.tag] = COUNTER.get(self.tag, 0) + 1
        k = COUNTER[self.tag]
        LOG.setdefault(self.tag, []).append(
            {"ev": "predict", "ndim": X.ndim, "shape": list(X.shape), "X": X.reshape(X.shape[0], -1).tolist()})
        n = X.shape[0]
        if getattr(self, "ydim_", 1) == 1:
            out = np.full(n, 100000.0 + 100 * k - self.frac)
            return np.asarray(out[0]) if n == 1 else out   # 0-d for one row (numpy>=2.4, DESIGN 1.4a)
        return np.tile(100000.0 + 100 * k + np.arange(self.n_outputs_) - self.frac, (n, 1))


def make_ts_recording_regressor():
    """The recording regressor as a TIME-SERIES regressor of the library that is a scikit-learn regressor as well
    (as the library's own forest regressor is): scitype inference must see the time-series regressor."""
    from sktime.regression.base import BaseRegressor

    class RecordingTSRegressor(RecordingRegressor, BaseRegressor):
        pass
    return RecordingTSRegressor


def make_recording_forecaster():
    """Factory (imports sktime lazily): a forecaster deriving from the repo's own base
    classes that logs fit / update / predict with the time points and values it is
    given and returns identifiable forecasts F(k, i) = 500000 + 1000*k + i."""
    import pandas as pd
    from sktime.forecasting.base._sktime import _SktimeForecaster, _OptionalForecastingHorizonMixin

    class RecordingForecaster(_OptionalForecastingHorizonMixin, _SktimeForecaster):
        def __init__(self, tag="f", bias=0.0):
            self.tag = tag
            self.bias = bias
            super(RecordingForecaster, self).__init__()

        def _log(self, **ev):
            LOG.setdefault(self.tag, []).append(ev)

        def fit(self, y, X=None, fh=None):
            self._set_y_X(y, X)
            self._set_fh(fh)
            self._log(ev="fit", index=[int(i) for i in y.index], values=[float(v) for v in y.values],
                      fh=None if fh is None else [int(i) for i in self.fh.to_pandas()],
                      fh_rel=None if fh is None else bool(self.fh.is_relative),
                      x=None if X is None else [int(i) for i in X.index])
            self._is_fitted = True
            return self

        def update(self, y, X=None, update_params=True):
            self.check_is_fitted()
            self._update_y_X(y, X)
            self._log(ev="update", index=[int(i) for i in y.index], values=[float(v) for v in y.values],
                      upd=bool(update_params), x=None if X is None else [int(i) for i in X.index])
            return self

        def _predict(self, fh, X=None, return_pred_int=False, alpha=0.05):
            COUNTER[self.tag] = COUNTER.get(self.tag, 0) + 1
            k = COUNTER[self.tag]
            idx = fh.to_absolute(self.cutoff).to_pandas()
            self._log(ev="predict", fh=[int(i) for i in idx], cutoff=int(self.cutoff),
                      x=None if X is None else [int(i) for i in X.index])
            return pd.Series([500000.0 + 1000 * k + i + 1 + self.bias for i in range(len(idx))], index=idx)

    return RecordingForecaster


class RecordingMetric:
    """Metric stub: logs its two arguments; the k-th call returns 7000 + k."""

    def __init__(self, tag="m", greater_is_better=False):
        self.tag = tag
        self.name = "Rec"
        self.greater_is_better = greater_is_better

    def __call__(self, a, b, **kw):
        COUNTER[self.tag] = COUNTER.get(self.tag, 0) + 1
        LOG.setdefault(self.tag, []).append(
            {"ev": "metric", "a": [float(v) for v in a.values], "b": [float(v) for v in b.values],
             "ai": [int(i) for i in a.index], "bi": [int(i) for i in b.index]})
        return 7000.0 + COUNTER[self.tag]


def make_table_forecaster():
    """Forecaster whose error in CV fold f is exactly table[f-1] (series y[t] = 1000 + t):
    fold f of F is recognised by its training length n - F + f - 1.  Outside the folds the
    forecast is truth + 0.001 * (number of observations at the last (re)fit)."""
    import pandas as pd
    from sktime.forecasting.base._sktime import _SktimeForecaster, _OptionalForecastingHorizonMixin

    class TableForecaster(_OptionalForecastingHorizonMixin, _SktimeForecaster):
        def __init__(self, table=(0,), n=8, tag="t", origin=0):
            self.table = table
            self.n = n
            self.tag = tag
            self.origin = origin      # label of the first observation (the series is y[label] = 1000 + label - origin)
            super(TableForecaster, self).__init__()

        def fit(self, y, X=None, fh=None):
            self._set_y_X(y, X)
            self._set_fh(fh)
            self._n_epoch = len(y)
            LOG.setdefault(self.tag, []).append(
                {"ev": "fit", "table": list(self.table), "first": int(y.index[0]) - self.origin,
                 "last": int(y.index[-1]) - self.origin, "x": None if X is None else [int(i) - self.origin for i in X.index]})
            self._is_fitted = True
            return self

        def update(self, y, X=None, update_params=True):
            LOG.setdefault(self.tag, []).append({"ev": "update", "table": list(self.table), "upd": bool(update_params)})
            return super(TableForecaster, self).update(y, X, update_params=update_params)

        def _predict(self, fh, X=None, return_pred_int=False, alpha=0.05):
            idx = fh.to_absolute(self.cutoff).to_pandas()
            F = len(self.table)
            f = self._n_epoch - (self.n - F) + 1
            off = float(self.table[f - 1]) if 1 <= f <= F and len(self._y) == self._n_epoch \
                else 0.001 * self._n_epoch
            if off == 0.0:
                off = float("nan")       # table entry 0: the forecast (and with it the fold's score) is undefined
            return pd.Series([1000.0 + int(t) - self.origin + off for t in idx], index=idx)

    return TableForecaster


def make_identity_transformer():
    from sktime.transformations.base import _SeriesToSeriesTransformer
    from sktime.utils.validation.series import check_series

    class IdentityTransformer(_SeriesToSeriesTransformer):
        _tags = {"transform-returns-same-time-index": True, "univariate-only": True}

        def fit(self, Z, X=None):
            self._is_fitted = True
            return self

        def transform(self, Z, X=None):
            self.check_is_fitted()
            return check_series(Z).copy()

        def inverse_transform(self, Z, X=None):
            self.check_is_fitted()
            return check_series(Z).copy()

    return IdentityTransformer


def decode_chain(v):
    """Value (1000+t)*10^m + chain digits -> (t, [digits]) (or None)."""
    s = str(int(round(v)))
    if abs(v - round(v)) > 1e-6 or len(s) < 4 or not s[:2] == "10":
        return None
    return int(s[:4]) - 1000, [int(c) for c in s[4:]]


C09_ORIGIN = [0]


class C09WeightAlgorithm:
    """Stub weighting algorithm of the online ensemble: fixed dyadic weights; logs what it is shown."""
    W = {1: [0.5], 2: [0.25, 0.5], 3: [0.5, 0.25, 0.125]}        # dyadic, not summing to one

    def __init__(self, n):
        self.weights = np.array(self.W[n])

    def update(self, y_pred, y_true):
        yt = [int(round(float(v))) for v in np.asarray(y_true).ravel()]
        LOG.setdefault("c09", []).append(dict(
            ev="ascore", who=0, rep=[], lo=yt[0] - 1000, hi=yt[-1] - 1000, upd=False,
            x=[[int(round(float(v))) for v in r] for r in np.asarray(y_pred)], y=yt))


def make_compose_stubs():
    """Leaf forecaster and tagging transformer for C09.  All events go to LOG["c09"] in call order."""
    import pandas as pd
    from sktime.forecasting.base._sktime import _SktimeForecaster, _OptionalForecastingHorizonMixin
    from sktime.transformations.base import _SeriesToSeriesTransformer
    from sktime.utils.validation.series import check_series
    T = "c09"

    def tm(i):
        """Time point as the specification names it: the index label minus the origin the driver shifted the data by."""
        return int(i) - C09_ORIGIN[0]

    def ev(**k):
        LOG.setdefault(T, []).append(k)

    def rep_of(y):
        d = [decode_chain(v) for v in y.values]
        if not d or any(x is None for x in d) or any(x[1] != d[0][1] for x in d) or \
                [x[0] for x in d] != [tm(i) for i in y.index]:
            return [-1]
        return d[0][1]

    class Leaf(_OptionalForecastingHorizonMixin, _SktimeForecaster):
        def __init__(self, id=1):
            self.id = id
            super(Leaf, self).__init__()

        def fit(self, y, X=None, fh=None):
            self._set_y_X(y, X)
            self._set_fh(fh)
            self._chain = rep_of(y)
            ev(ev="fit", who=self.id, rep=self._chain, lo=tm(y.index[0]), hi=tm(y.index[-1]), upd=False)
            self._is_fitted = True
            return self

        def update(self, y, X=None, update_params=True):
            self.check_is_fitted()
            self._update_y_X(y, X)
            ev(ev="update", who=self.id, rep=rep_of(y), lo=tm(y.index[0]), hi=tm(y.index[-1]),
               upd=bool(update_params))
            return self

        def _predict(self, fh, X=None, return_pred_int=False, alpha=0.05):
            c = tm(self.cutoff)
            idx = fh.to_absolute(self.cutoff).to_pandas()
            ev(ev="predict", who=self.id, rep=[], lo=c, hi=c, upd=False)
            vals = []
            for i in range(len(idx)):
                v = 500000 + 10000 * self.id + 100 * (c % 100) + (i + 1)
                for d in self._chain:      # forecasts live in the representation of the training data
                    v = 10 * v + d
                vals.append(float(v))
            y_pred = pd.Series(vals, index=idx)
            if return_pred_int:       # intervals that name the coverage level they were asked for
                return y_pred, pd.DataFrame({"lower": y_pred - 1000.0 * alpha, "upper": y_pred + 1000.0 * alpha})
            return y_pred

    class Tag(_SeriesToSeriesTransformer):
        _tags = {"transform-returns-same-time-index": True, "univariate-only": True}

        def __init__(self, k=1):
            self.k = k
            super(Tag, self).__init__()

        def fit(self, Z, X=None):
            z = check_series(Z)
            ev(ev="tfit", who=self.k, rep=rep_of(z), lo=tm(z.index[0]), hi=tm(z.index[-1]), upd=False)
            self._is_fitted = True
            return self

        def transform(self, Z, X=None):
            self.check_is_fitted()
            z = check_series(Z)
            ev(ev="ttransform", who=self.k, rep=rep_of(z), lo=tm(z.index[0]), hi=tm(z.index[-1]), upd=False)
            return z * 10.0 + self.k

        def inverse_transform(self, Z, X=None):
            self.check_is_fitted()
            z = check_series(Z)
            ev(ev="tinverse", who=self.k, rep=[], lo=0, hi=0, upd=False)
            return (z - self.k) / 10.0

        def update(self, Z, X=None, update_params=False):
            self.check_is_fitted()
            z = check_series(Z)
            ev(ev="tupdate", who=self.k, rep=rep_of(z), lo=tm(z.index[0]), hi=tm(z.index[-1]),
               upd=bool(update_params))
            return self

    class NoUpdateTag(_SeriesToSeriesTransformer):
        """Like Tag but, as log / Box-Cox transformers, without an update method."""
        _tags = {"transform-returns-same-time-index": True, "univariate-only": True}

        def __init__(self, k=4):
            self.k = k
            super(NoUpdateTag, self).__init__()

        fit = Tag.fit
        transform = Tag.transform
        inverse_transform = Tag.inverse_transform

    class SkipTag(Tag):
        _tags = {"transform-returns-same-time-index": True, "univariate-only": True,
                 "skip-inverse-transform": True}

    class MetaRegressor(RecordingRegressor):
        def fit(self, X, y):
            super().fit(X, y)
            e = LOG[self.tag].pop()
            ev(ev="mfit", who=0, rep=[], lo=0, hi=0, upd=False,
               x=[[int(round(v)) for v in r] for r in e["X"]], y=[int(round(r[0])) for r in e["y"]])
            return self

        def predict(self, X):
            super().predict(X)
            e = LOG[self.tag].pop()
            ev(ev="mpredict", who=0, rep=[], lo=0, hi=0, upd=False,
               x=[[int(round(v)) for v in r] for r in e["X"]], y=[])
            return np.full(len(e["X"]), 100100.0)   # constant token: applying the composite stays pure

    return Leaf, Tag, SkipTag, MetaRegressor, NoUpdateTag
