"""Value abstraction (DESIGN.md section 3): turn observed floats into exact rationals."""
import math
from fractions import Fraction

EPS = 2.0 ** -52
QMAX = 10 ** 6


def rational(x, tol=1e-10, qmax=QMAX):
    """Unique p/q with q <= qmax and |x - p/q| <= tol*max(1,|x|), else None."""
    if x is None or math.isnan(x) or math.isinf(x):
        return None
    f = Fraction(x).limit_denominator(qmax)
    if abs(float(f) - x) <= tol * max(1.0, abs(x)):
        if abs(f.numerator) >= 2 ** 31 or f.denominator >= 2 ** 31:
            return None
        return [f.numerator, f.denominator]
    return None


def decode_eps(x, pow_=1):
    """All readings of x**pow as (n/d) * EPS**k: a list of [k, n, d] for every k in -24..24 for which
    x**pow / EPS**k is a rational with small denominator (the specification says which k it expects)."""
    out = []
    try:
        v = float(x) ** pow_
    except OverflowError:
        return out
    if v == 0:
        return [[0, 0, 1]]
    if math.isnan(v) or math.isinf(v):
        return out
    k0 = int(round(math.log(abs(v)) / math.log(EPS)))
    for k in range(max(-24, k0 - 2), min(24, k0 + 2) + 1):
        try:
            # products of a few small fractions (weighted geometric means): denominators up to 2^24
            r = rational(v / (EPS ** k), qmax=2 ** 24)
        except (OverflowError, ZeroDivisionError):
            r = None
        if r is not None and r[0] != 0 and abs(r[0]) < 10 ** 8 and r[1] < 10 ** 8:
            out.append([k, r[0], r[1]])
    return out


def iround(v):
    """Nearest integer of a token-valued float; NaN / inf / huge become -999999 (a value no specification expects)."""
    try:
        v = float(v)
    except (TypeError, ValueError):
        return -999999
    return int(round(v)) if v == v and abs(v) < 1e15 else -999999
