"""Value abstraction (DESIGN.md section 3): turn observed floats into exact rationals."""
import math
from fractions import Fraction

EPS = 2.0 ** -52
QMAX = 10 ** 6


def rational(x, tol=1e-10):
    """Unique p/q with q <= QMAX and |x - p/q| <= tol*max(1,|x|), else None."""
    if x is None or math.isnan(x) or math.isinf(x):
        return None
    f = Fraction(x).limit_denominator(QMAX)
    if abs(float(f) - x) <= tol * max(1.0, abs(x)):
        if abs(f.numerator) >= 2 ** 31 or f.denominator >= 2 ** 31:
            return None
        return [f.numerator, f.denominator]
    return None


def decode_eps(x, pow_=1):
    """17 entries for k = -8..8: rational of x**pow / EPS**k, or [] when not rational."""
    out = []
    try:
        v = float(x) ** pow_
    except OverflowError:
        v = float("inf")
    for k in range(-8, 9):
        try:
            r = rational(v / (EPS ** k))
        except OverflowError:
            r = None
        out.append(r if r is not None else [])
    return out
