"""Runnable-scope list (DESIGN.md 1.5): forecaster factories the life-cycle checks
quantify over.  Each entry: name, factory, mode ("opt": fh in fit or predict,
"req": fh required in fit), refit (update(update_params=True) is the library's
refit default, so refit equivalence is claimed), cost ("fast"/"slow").
An entry that stops working on a changed tree is reported as a violation, never
silently dropped; the list itself is fixed in git.
"""
import numpy as np


from sklearn.linear_model import LinearRegression as _LinearRegression


class ZeroDimLinear(_LinearRegression):
    """LinearRegression whose single-row prediction is 0-d (numpy>=2.4 refuses
    a[i] = array of shape (1,), which the reducers do; DESIGN.md 1.4a)."""

    def predict(self, X):
        r = super().predict(X)
        if isinstance(r, np.ndarray) and r.shape == (1,):
            return np.asarray(r[0])
        return r


def _lin():
    return ZeroDimLinear()


def forecasters():
    from sktime.forecasting.naive import NaiveForecaster
    from sktime.forecasting.trend import PolynomialTrendForecaster
    from sktime.forecasting.exp_smoothing import ExponentialSmoothing
    from sktime.forecasting.theta import ThetaForecaster
    from sktime.forecasting.ets import AutoETS
    from sktime.forecasting.compose import (
        EnsembleForecaster, TransformedTargetForecaster, StackingForecaster,
        MultiplexForecaster, make_reduction)
    from sktime.forecasting.model_selection import (
        ForecastingGridSearchCV, ForecastingRandomizedSearchCV, SlidingWindowSplitter)
    from sktime.transformations.series.detrend import Detrender, Deseasonalizer
    from sktime.transformations.series.boxcox import LogTransformer

    L = []

    def add(name, f, mode="opt", refit=True, cost="fast", closed=None):
        L.append({"name": name, "factory": f, "mode": mode, "refit": refit, "cost": cost, "closed": closed})

    add("naive_last", lambda: NaiveForecaster("last"), closed="last")
    add("naive_mean", lambda: NaiveForecaster("mean"))
    add("naive_mean_w3", lambda: NaiveForecaster("mean", window_length=3))
    add("naive_drift", lambda: NaiveForecaster("drift"))
    add("naive_last_sp3", lambda: NaiveForecaster("last", sp=3))
    add("naive_mean_sp3_w5", lambda: NaiveForecaster("mean", sp=3, window_length=5))
    add("poly0", lambda: PolynomialTrendForecaster(degree=0))
    add("poly1", lambda: PolynomialTrendForecaster(degree=1))
    add("poly2", lambda: PolynomialTrendForecaster(degree=2))
    add("expsmooth", lambda: ExponentialSmoothing(), cost="slow")
    add("theta", lambda: ThetaForecaster(deseasonalize=False), refit=False, cost="slow")
    add("autoets", lambda: AutoETS(), cost="slow")
    add("autoets_auto", lambda: AutoETS(auto=True), cost="slow", refit=False)       # model selected from the data in fit
    for strat in ("direct", "recursive", "multioutput", "dirrec"):
        mode = "opt" if strat == "recursive" else "req"
        add("reduce_" + strat, (lambda s: lambda: make_reduction(_lin(), strategy=s, window_length=2))(strat),
            mode=mode)
    for strat in ("direct", "multioutput"):
        # the same reducers with two exogenous columns given in fit and in every update (no update_predict)
        add("reduce_%s_exog" % strat, (lambda s: lambda: make_reduction(_lin(), strategy=s, window_length=2))(strat), mode="req")
        L[-1]["exog"] = True
    add("ensemble_mean", lambda: EnsembleForecaster(
        [("a", NaiveForecaster("last")), ("b", PolynomialTrendForecaster(degree=1))]))
    add("ensemble_median", lambda: EnsembleForecaster(
        [("a", NaiveForecaster("last")), ("b", NaiveForecaster("mean")),
         ("c", NaiveForecaster("drift"))], aggfunc="median"))
    # the remaining aggregation functions; two members, so that members and steps are not equally many
    add("ensemble_min", lambda: EnsembleForecaster(
        [("a", NaiveForecaster("last")), ("b", PolynomialTrendForecaster(degree=1))], aggfunc="min"))
    add("ensemble_max", lambda: EnsembleForecaster(
        [("a", NaiveForecaster("mean")), ("b", NaiveForecaster("drift"))], aggfunc="max"))
    add("pipe_detrend_naive", lambda: TransformedTargetForecaster(
        [("d", Detrender(PolynomialTrendForecaster(degree=1))), ("f", NaiveForecaster("mean"))]),
        refit=False)  # composite update: each step updates itself, the pipeline is not refitted as a whole
    add("pipe_log_poly", lambda: TransformedTargetForecaster(
        [("l", LogTransformer()), ("f", PolynomialTrendForecaster(degree=1))]))
    add("mux", lambda: MultiplexForecaster(
        [("a", NaiveForecaster("last")), ("b", PolynomialTrendForecaster(degree=1))],
        selected_forecaster="b"))
    add("stack", lambda: StackingForecaster(
        [("a", NaiveForecaster("last")), ("b", PolynomialTrendForecaster(degree=1))],
        final_regressor=_lin()), mode="req", refit=False)  # documented: final regressor is not updated
    add("grid_naive", lambda: ForecastingGridSearchCV(
        NaiveForecaster(strategy="mean"), cv=SlidingWindowSplitter(fh=1, window_length=3),
        param_grid={"strategy": ["last", "mean"]}), cost="slow")
    add("ens_of_pipe", lambda: EnsembleForecaster(
        [("p", TransformedTargetForecaster([("d", Detrender(PolynomialTrendForecaster(degree=1))),
                                            ("f", NaiveForecaster("last"))])),
         ("n", NaiveForecaster("mean", window_length=2))]), refit=False)
    # a pipeline whose final step is itself a composite
    add("pipe_of_ens", lambda: TransformedTargetForecaster(
        [("d", Detrender(PolynomialTrendForecaster(degree=1))),
         ("f", EnsembleForecaster([("a", NaiveForecaster("last")), ("b", NaiveForecaster("mean", window_length=3))]))]),
        refit=False)
    return L
