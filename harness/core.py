"""Common run-time for all property checks: context, verdict bookkeeping,
known findings, replay files, evidence, exit codes (DESIGN.md 2.3-2.6, 7).

Exit codes: 0 property held on everything explored (KNOWN-FINDING lines allowed),
1 with `VIOLATION property=<id> replay=<path>`, 2 machinery failure.
"""
import hashlib
import importlib
import json
import os
import random
import shutil
import sys
import time
import traceback

VERIF = os.path.dirname(os.path.dirname(os.path.abspath(__file__)))
sys.path.insert(0, VERIF)

from harness import tlc as T  # noqa: E402


def canon(o):
    return json.dumps(o, sort_keys=True, separators=(",", ":"), default=str)


def h8(o):
    return hashlib.sha256(canon(o).encode()).hexdigest()[:10]


class Ctx:
    def __init__(self, pid, tier, seed, replay=None):
        self.pid = pid
        self.tier = tier
        self.quick = tier == "quick"
        self.seed = seed
        self.rng = random.Random(seed)
        # VERIF_WORK_SUFFIX lets two runs of the same check (e.g. a development run next to a sweep) coexist
        self.work = os.path.join(VERIF, ".work", pid + os.environ.get("VERIF_WORK_SUFFIX", ""))
        shutil.rmtree(self.work, ignore_errors=True)
        os.makedirs(self.work, exist_ok=True)
        self.t0 = time.time()
        self.replay = replay
        # accumulators
        self.states = 0
        self.transitions = 0
        self.evaluations = 0
        self.traces = 0
        self.events = 0
        self.nontrivial = set()
        self.samples = []
        self.violations = []          # (key, replay_path, msg)
        self.known_printed = {}       # deviation id -> count
        self.tlc_runs = []
        self.exhaustive = True
        self.notes = []
        self.coverage_actions = {}
        kf = json.load(open(os.path.join(VERIF, "known_findings.json")))
        self.known = [k for k in kf["findings"] if k["property"] == pid]

    # ---- TLC -----------------------------------------------------------
    def model_check(self, module, cfg, workers=16, timeout=1500, env=None, coverage=True,
                    need_actions=()):
        """Exhaustive TLC run of the design model. A violated invariant here means
        the *specification* contradicts the property: machinery failure (exit 2)."""
        r = T.run(module, cfg, self.work, workers=workers, timeout=timeout, env=env,
                  coverage=coverage)
        if r.error:
            raise T.TLCError("model %s/%s: %s" % (module, cfg, r.error))
        if r.violation:
            raise T.TLCError("model %s/%s violates %s (spec does not satisfy the property)\n%s"
                             % (module, cfg, r.violation, r.stdout[-3000:]))
        for a in need_actions:
            if r.coverage.get(a, (0, 0))[1] == 0:
                raise T.TLCError("vacuity: action %s of %s never taken" % (a, module))
        self.states += r.distinct
        self.transitions += r.generated
        self.tlc_runs.append({"module": module, "cfg": cfg, "generated": r.generated,
                              "distinct": r.distinct, "wall_s": round(r.wall, 1)})
        for k, v in r.coverage.items():
            self.coverage_actions[module + "." + k] = v[1]
        return r

    def judge(self, module, cfg, records, name="trace", env=None, dfs=False, timeout=1800):
        path = os.path.join(self.work, name + ".ndjson")
        T.write_ndjson(path, records)
        rejects, devs, r = T.judge(module, cfg, path, self.work, len(records), env=env, dfs=dfs,
                                   timeout=timeout)
        self.tlc_runs.append({"module": module, "cfg": cfg, "lines": len(records),
                              "generated": r.generated, "wall_s": round(r.wall, 1)})
        self.events += len(records)
        return rejects, devs

    # ---- verdicts ------------------------------------------------------
    def sample(self, s, limit=6):
        if len(self.samples) < limit:
            self.samples.append(s)

    def nontriv(self, key):
        self.nontrivial.add(key if isinstance(key, str) else h8(key))

    def violation(self, scenario, msg):
        key = h8(scenario)
        if any(v[0] == key for v in self.violations):
            return
        d = os.path.join(VERIF, "replays")
        os.makedirs(d, exist_ok=True)
        path = os.path.join(d, "%s-%s.json" % (self.pid, key))
        with open(path, "w") as f:
            json.dump({"property": self.pid, "scenario": scenario, "verdict": msg,
                       "seed": self.seed, "tier": self.tier}, f, indent=1, default=str)
        self.violations.append((key, path, msg))
        if len(self.violations) <= 25:
            print("VIOLATION property=%s replay=%s" % (self.pid, path))
            print("  detail: %s" % (msg[:400],))
        sys.stdout.flush()

    def known_finding(self, dev_id, example=None):
        """A scenario explained only by open deviation `dev_id` (decided by TLC)."""
        k = [x for x in self.known if x.get("status") == "open" and x.get("deviation") == dev_id]
        if not k:
            return False
        if dev_id not in self.known_printed:
            self.known_printed[dev_id] = 0
            print("KNOWN-FINDING: property=%s %s: %s" % (self.pid, dev_id, k[0]["what"]))
            sys.stdout.flush()
        self.known_printed[dev_id] += 1
        return True

    def open_deviations(self):
        return [x["deviation"] for x in self.known if x.get("status") == "open"]

    # ---- evidence ------------------------------------------------------
    def finish(self, rule, assumptions, extra=None):
        cov = {
            "states": int(self.states), "transitions": int(self.transitions),
            "traces_validated_against_impl": int(self.traces),
            "events_validated": int(self.events),
            "evaluations": int(self.evaluations),
            "distinct_nontrivial": len(self.nontrivial),
            "rule": rule, "samples": self.samples or ["(none)"],
            "exhaustive": bool(self.exhaustive),
            "tlc_runs": self.tlc_runs,
            "action_coverage": self.coverage_actions,
            "known_findings_printed": self.known_printed,
            "notes": self.notes,
        }
        if extra:
            cov.update(extra)
        ev = {"property_id": self.pid, "tier": self.tier, "seed": int(self.seed),
              "level": "model_checking", "coverage": cov, "assumptions": assumptions,
              "wall_s": round(time.time() - self.t0, 2), "violations": len(self.violations)}
        # runs against a scratch tree (seeded / behaviour-preserving changes) do not overwrite the evidence of /repo
        evdir = os.path.join(VERIF, "evidence") if os.path.realpath(os.environ.get("VERIF_REPO", "/repo")) == "/repo" \
            else os.path.join(VERIF, ".work", "evidence-scratch")
        os.makedirs(evdir, exist_ok=True)
        with open(os.path.join(evdir, self.pid + ".json"), "w") as f:
            json.dump(ev, f, indent=1, default=str)
        shutil.rmtree(self.work, ignore_errors=True)
        print("%s %s: states=%d traces=%d evaluations=%d nontrivial=%d violations=%d known=%s wall=%.1fs"
              % (self.pid, self.tier, self.states, self.traces, self.evaluations,
                 len(self.nontrivial), len(self.violations), dict(self.known_printed),
                 time.time() - self.t0))
        return 1 if self.violations else 0


def main(argv=None):
    argv = list(sys.argv[1:] if argv is None else argv)
    if not argv:
        print("usage: check <ID> [--tier quick|thorough] [--replay file]")
        return 2
    pid = argv[0].upper()
    tier = os.environ.get("VERIF_TIER", "quick")
    replay = None
    i = 1
    while i < len(argv):
        if argv[i] == "--tier":
            tier = argv[i + 1]
            i += 2
        elif argv[i] == "--replay":
            replay = argv[i + 1]
            i += 2
        else:
            i += 1
    if tier not in ("quick", "thorough"):
        tier = "quick"
    try:
        seed = int(os.environ.get("VERIF_SEED", "0"))
    except ValueError:
        seed = 0
    try:
        import harness.compat as compat
        compat.assert_repo_sktime()
        mod = importlib.import_module("harness.drivers." + pid.lower())
        ctx = Ctx(pid, tier, seed, replay)
        if replay:
            return mod.replay(ctx, json.load(open(replay)))
        return mod.run(ctx)
    except T.TLCError as e:
        sys.stderr.write("MACHINERY FAILURE (TLC): %s\n" % e)
        c = locals().get("ctx")
        if c is not None and c.violations and not replay:
            try:
                c.exhaustive = False
                c.notes.append("run aborted after %d violations by a TLC error: %s" % (len(c.violations), str(e)[:200]))
                return c.finish(rule="aborted run (violations established before a TLC error)", assumptions=[])
            except BaseException:
                return 1
        return 2
    except SystemExit:
        raise
    except BaseException:
        sys.stderr.write("MACHINERY FAILURE:\n" + traceback.format_exc())
        c = locals().get("ctx")
        if c is not None and c.violations and not replay:
            # violations were already established (and printed) before the harness tripped over what the changed code
            # returned: the verdict stands
            try:
                c.exhaustive = False
                c.notes.append("run aborted after %d violations by: %s" % (len(c.violations), traceback.format_exc().splitlines()[-1][:200]))
                return c.finish(rule="aborted run (violations established before a harness error)", assumptions=[])
            except BaseException:
                return 1
        return 2


if __name__ == "__main__":
    sys.exit(main())
