"""Static part of C04: AST scan of every estimator class defined in /repo/sktime (no import needed).
For each class that transitively derives from sktime.base.BaseEstimator decide whether its constructor stores
every argument verbatim under its own name (self.<p> = <p>) or forwards it by name / position to the parent
constructor.  Classes that store a transformed argument (self.sp = check_sp(sp)) are reported as 'transformed':
only running them can tell (they are judged dynamically when importable)."""
import ast
import os


def scan(repo):
    classes = {}
    for root, _, files in os.walk(os.path.join(repo, "sktime")):
        if "/tests" in root or "/contrib" in root:
            continue
        for f in files:
            if not f.endswith(".py"):
                continue
            path = os.path.join(root, f)
            try:
                tree = ast.parse(open(path).read())
            except SyntaxError:
                continue
            for node in ast.walk(tree):
                if isinstance(node, ast.ClassDef):
                    bases = []
                    for b in node.bases:
                        bases.append(b.id if isinstance(b, ast.Name) else (b.attr if isinstance(b, ast.Attribute) else "?"))
                    classes.setdefault(node.name, []).append({"bases": bases, "node": node, "path": os.path.relpath(path, repo)})
    # transitive closure from sktime's BaseEstimator
    roots = {"BaseEstimator"}
    est = set()
    changed = True
    while changed:
        changed = False
        for name, defs in classes.items():
            if name in est:
                continue
            for d in defs:
                if name == "BaseEstimator" and d["path"].startswith("sktime/base"):
                    est.add(name)
                    changed = True
                elif any(b in est for b in d["bases"]):
                    est.add(name)
                    changed = True
    out = []
    for name in sorted(est):
        for d in classes[name]:
            init = next((n for n in d["node"].body if isinstance(n, ast.FunctionDef) and n.name == "__init__"), None)
            rec = {"cls": name, "path": d["path"], "verdict": "inherits", "missing": []}
            if init is not None:
                args = [a.arg for a in init.args.args[1:]] + [a.arg for a in init.args.kwonlyargs]
                if init.args.vararg is not None:
                    rec["verdict"] = "varargs"
                stored, transformed, forwarded = set(), set(), set()
                for n in ast.walk(init):
                    if isinstance(n, ast.Assign):
                        for t in n.targets:
                            if isinstance(t, ast.Attribute) and isinstance(t.value, ast.Name) and t.value.id == "self":
                                if isinstance(n.value, ast.Name) and n.value.id == t.attr:
                                    stored.add(t.attr)
                                elif t.attr in args:
                                    transformed.add(t.attr)
                    if isinstance(n, ast.Call) and isinstance(n.func, ast.Attribute) and n.func.attr == "__init__":
                        for kw in n.keywords:
                            if isinstance(kw.value, ast.Name) and kw.arg is not None:
                                forwarded.add(kw.value.id if kw.value.id == kw.arg else "")
                            elif kw.arg is None:
                                forwarded.update(args)          # **kwargs
                        for a in n.args:
                            if isinstance(a, ast.Name):
                                forwarded.add(a.id)
                missing = [a for a in args if a not in stored and a not in forwarded and a not in transformed]
                if rec["verdict"] != "varargs":
                    rec["verdict"] = "literal" if not missing and not (transformed - stored) else \
                        ("transformed" if not missing else "not_stored")
                rec["missing"] = missing
                rec["transformed"] = sorted(transformed - stored)
                rec["nargs"] = len(args)
            out.append(rec)
    return out
