"""C05 -- reduction feeds exactly the lagged windows. Spec: spec/Reduction.tla."""
import numpy as np
import pandas as pd

from harness import stubs
from harness import tlc as T
from harness.core import canon

REJECT = (ValueError, TypeError, NotImplementedError)


def _i(v):
    v = float(v)
    return int(round(v)) if v == v and abs(v) < 1e15 else -999999       # NaN / inf: a value no specification expects


def ints(m):
    return [[_i(v) for v in row] for row in m]


def observe(cfg, scitype, origin=0, fhvariant=0):
    from sktime.forecasting.compose import make_reduction
    from sktime.forecasting.base import ForecastingHorizon
    n, w, fh, nx, upd = cfg["n"], cfg["w"], list(cfg["fh"]), cfg["nx"], cfg["upd"]
    tag = "c05"
    stubs.reset(tag)

    # every fifth run: the whole series is lowered so that its LAST observation (after the updates) is exactly 0.0 --
    # a count series ending in a zero; logged values <= 0.5 are raised again before they are compared with the tokens
    zoff = (1000.0 + n - 1 + upd) if fhvariant % 5 == 2 else 0.0

    def yser(lo, hi):
        if zoff:
            return pd.Series([1000.0 + t - zoff for t in range(lo, hi)], index=pd.RangeIndex(lo + origin, hi + origin))
        if fhvariant % 4 == 1:      # count data: integer dtype
            return pd.Series([1000 + t for t in range(lo, hi)], index=pd.RangeIndex(lo + origin, hi + origin), dtype="int64")
        return pd.Series([1000.0 + t for t in range(lo, hi)], index=pd.RangeIndex(lo + origin, hi + origin))

    def xfr(lo, hi):
        if nx == 0:
            return None
        return pd.DataFrame({"x%d" % c: [1000.0 * (c + 2) + t for t in range(lo, hi)] for c in range(1, nx + 1)},
                            index=pd.RangeIndex(lo + origin, hi + origin))
    try:
        fharg = [fh, np.array(fh), ForecastingHorizon(fh)][fhvariant % 3]
        Reg, sci = stubs.RecordingRegressor, scitype
        if fhvariant % 4 == 2:        # the scitype is left to be inferred from the regressor's class
            sci = "infer"
            if scitype == "time-series-regressor":
                Reg = stubs.make_ts_recording_regressor()
        if cfg.get("pre"):
            # the same object was fitted before with another window length (and then re-parameterised)
            f = make_reduction(Reg(tag=tag, frac=0.25), strategy=cfg["strategy"],
                               window_length=cfg["pre"], scitype=sci)
            try:
                # (the earlier fit came with an exogenous column even when the fit that counts has none)
                xpre = xfr(0, n) if nx else pd.DataFrame({"x9": [9000.0 + t for t in range(n)]}, index=pd.RangeIndex(origin, n + origin))
                f.fit(yser(0, n), X=xpre if cfg["strategy"] != "dirrec" else None, fh=fharg)
            except REJECT:
                pass
            f.set_params(window_length=w)
            stubs.reset(tag)
        else:
            f = make_reduction(Reg(tag=tag, frac=0.25), strategy=cfg["strategy"], window_length=w,
                               scitype=sci)
        f.fit(yser(0, n), X=xfr(0, n), fh=fharg)
        if upd:
            f.update(yser(n, n + upd), X=xfr(n, n + upd), update_params=False)
        cut = n - 1 + upd
        Xp = xfr(cut + 1, cut + 1 + fh[-1]) if cfg["strategy"] == "recursive" else None
        p = f.predict(X=Xp) if Xp is not None else f.predict()
    except REJECT:
        return {"rej": True}
    except Exception as e:
        return {"rej": False, "crash": type(e).__name__ + ": " + str(e)[:150]}
    log = stubs.LOG[tag]
    fits = [e for e in log if e["ev"] == "fit"]
    preds = [e for e in log if e["ev"] == "predict"]
    want_ndim = 2 if scitype == "tabular-regressor" else 3
    def up(m):
        return [[v + zoff if (zoff and v <= 0.5) else v for v in row] for row in m]
    o = {"rej": False, "nvars": 1 + nx,
         "fits": [{"X": ints(up(e["X"])), "y": ints(up(e["y"])), "ydim": e["ydim"]} for e in fits],
         "preds": [ints(up(e["X"]))[0] for e in preds],
         "ret": [_i(v) for v in p.values], "index": [int(i) - origin for i in p.index]}
    # container shape promised for the scitype (numbers themselves are judged by TLC)
    for e in fits + preds:
        if e["ndim"] != want_ndim or (want_ndim == 3 and e["shape"][1] != 1 + nx) or len(e["X"]) != e["shape"][0]:
            o["crash"] = "container shape %s for scitype %s" % (e["shape"], scitype)
    if hasattr(f.estimator, "ydim_"):
        o["crash"] = "the regressor handed to make_reduction was fitted in place (every strategy fits clones)"
    if any(len(e["X"]) != 1 for e in preds):
        o["crash"] = "predict called with several rows"
    return o


def random_cfg(rng, big):
    strategy = rng.choice(["direct", "recursive", "multioutput", "dirrec"])
    w = rng.randint(1, 20)
    k = rng.randint(1, 5)
    fh = sorted(rng.sample(range(1, 13), k))
    n = rng.randint(max(3, w), big)
    if rng.random() < 0.85:
        n = max(n, w + fh[-1] + rng.randint(0, 3))
    return {"strategy": strategy, "n": n, "w": w, "fh": fh,
            "nx": 0 if strategy == "dirrec" else rng.choice([0, 0, 1, 2]), "upd": rng.choice([0, 0, 1, 3]),
            "pre": rng.choice([0, 0, rng.randint(1, 20)])}


def run(ctx):
    tier = ctx.tier
    ctx.model_check("MCReduction", "MCReduction.%s.cfg" % tier,
                    need_actions=("PickStrategy", "PickShape", "PickFh", "PickExtra"))
    r = T.must(T.run("MCReduction", "MCReduction.%s.emit.cfg" % tier, ctx.work, workers=16), "emit")
    if not r.printed:
        raise T.TLCError("no vectors")
    ctx.notes.append("vectors emitted by TLC: %d" % len(r.printed))
    for i, v in enumerate(r.printed):
        cfg, exp = v["cfg"], v["exp"]
        for scitype in (("tabular-regressor", "time-series-regressor") if (not ctx.quick or i % 2 == 0)
                        else ("tabular-regressor",)):
            obs = observe(cfg, scitype, origin=[0, 5, -3][i % 3], fhvariant=i)
            ctx.evaluations += 1
            if obs != exp:
                ctx.violation({"cfg": cfg, "scitype": scitype, "origin": [0, 5, -3][i % 3], "fhvariant": i % 60},
                              "spec->code (%s): expected %s observed %s"
                              % (scitype, canon(exp)[:260], canon(obs)[:260]))
        if not exp["rej"]:
            ctx.nontriv(cfg)
        if i % 1500 == 0:
            ctx.sample({"cfg": cfg, "expected": exp})
    recs = []
    nrand = 400 if ctx.quick else 4000
    for t in range(nrand):
        cfg = random_cfg(ctx.rng, 40 if ctx.quick else 80)
        scitype = ctx.rng.choice(["tabular-regressor", "time-series-regressor"])
        origin = ctx.rng.randint(-20, 50)
        obs = observe(cfg, scitype, origin, t)
        ctx.evaluations += 1
        if "crash" in obs:
            ctx.violation({"cfg": cfg, "scitype": scitype, "origin": origin, "fhvariant": t % 60}, "crash: " + obs["crash"])
            continue
        recs.append({"tid": t, "cfg": cfg, "obs": obs, "scitype": scitype, "origin": origin})
        if not obs["rej"]:
            ctx.nontriv(cfg)
    rejects, _ = ctx.judge("TraceReduction", "TraceReduction.cfg", recs)
    ctx.traces += len(recs) - len(rejects)
    for rec in recs:
        if rec["tid"] in rejects:
            ctx.violation({"cfg": rec["cfg"], "scitype": rec["scitype"], "origin": rec["origin"],
                           "fhvariant": rec["tid"] % 60},
                          "code->spec: TLC rejects recorded regressor calls, clause %s; observed %s"
                          % (rejects[rec["tid"]], canon(rec["obs"])[:300]))
    return ctx.finish(
        rule="TLC enumerates (strategy, n, window, horizon incl. gapped, 0-2 exogenous columns, 0-2 updated "
             "observations) within the cfg constants and emits every fit/predict call the wrapped regressor "
             "must receive; a recording regressor wrapped by the real reducers is compared call by call for "
             "both scitypes; random larger configurations are validated by TraceReduction.tla. Non-trivial = "
             "accepted configuration; distinct by configuration.",
        assumptions=["compat shim", "the recording regressor returns a 0-d array for one-row 1-d predictions (numpy>=2.4)",
                     "token values 1000+t / 1000(c+2)+t identify the observation a matrix cell came from"])


def replay(ctx, doc):
    sc = doc["scenario"]
    obs = observe(sc["cfg"], sc["scitype"], sc.get("origin", 0), sc.get("fhvariant", 0))
    print("observed:", canon(obs)[:3000])
    if "crash" in obs:
        print("VIOLATION property=C05 replay=%s" % ctx.replay)
        return 1
    rejects, _ = ctx.judge("TraceReduction", "TraceReduction.cfg", [{"tid": 0, "cfg": sc["cfg"], "obs": obs}])
    if rejects:
        print("VIOLATION property=C05 replay=%s" % ctx.replay)
        return 1
    print("replay accepted")
    return 0
