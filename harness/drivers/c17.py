"""C17 -- classifiers return well-formed probabilities consistent with their predictions.
Spec: spec/PanelEstim.tla (second half), judge TraceProba.tla."""
import warnings

import numpy as np
import pandas as pd

from harness import estimators as E
from harness import tlc as T
from harness.core import canon
from harness.decode import rational

# string labels of unequal length, the first in sorted order being the shortest
LABEL_SETS = [[0, 1], [3, 7, 11], ["on", "a"], [-1, 2], ["x", "Y", "zeta", "w"], [5, 1, 9, 2]]


def dec_row(row):
    """Exact decoding of a probability row; rows whose entries are not small rationals (accuracy-weighted
    votes, logistic models) are put on a fixed grid of 1e-4 (monotone, so the maximal entries stay maximal) with the
    rounding remainder given to the largest entry, provided the float row sums to 1 within 1e-9."""
    out = [rational(float(v)) for v in row]
    if all(o is not None and o[1] <= 2000 for o in out):
        return out
    D = 10 ** 4
    ints = [int(np.floor(float(v) * D + 1e-9)) for v in row]       # floor: monotone, the remainder is never negative
    if abs(float(np.sum(row)) - 1.0) <= 1e-9:
        ints[int(np.argmax(np.asarray(row, dtype=float)))] += D - sum(ints)      # the largest entry stays the largest
    from fractions import Fraction
    return [[Fraction(i, D).numerator, Fraction(i, D).denominator] for i in ints]


def slope(a):
    n = a.shape[1]
    if n < 2:
        return np.zeros(a.shape[0])
    t = np.arange(n) - (n - 1) / 2.0
    return (a - a.mean(axis=1, keepdims=True)).dot(t) / (t ** 2).sum()


def forest_features(X2d, intervals, layout=0):
    """mean, standard deviation and slope of every interval; layout 0: the three features of an interval next to each
    other, layout 1: all means, then all standard deviations, then all slopes (the property does not fix the order in
    which a tree is shown its features: either is accepted, see tree_outputs)."""
    m, sd, sl_ = [], [], []
    for a, b in intervals:
        sl = X2d[:, a:b]
        m.append(sl.mean(axis=1)); sd.append(sl.std(axis=1)); sl_.append(slope(sl))
    cols = [c for trio in zip(m, sd, sl_) for c in trio] if layout == 0 else m + sd + sl_
    return np.column_stack(cols).astype(np.float32)


def tree_outputs(forest, X2d, method, target):
    """Per-tree outputs on recomputed interval features, in the feature layout that reproduces `target` (the
    forest's own output) -- or in the first layout if none does."""
    outs = []
    for layout in (0, 1):
        o = np.array([getattr(forest.estimators_[i], method)(forest_features(X2d, forest.intervals_[i], layout))
                      for i in range(forest.n_estimators)])
        outs.append(o)
        if o.mean(axis=0).shape == np.asarray(target).shape and np.allclose(o.mean(axis=0), target, rtol=1e-9, atol=1e-9):
            return o
    return outs[0]


def observe(entry, labels, seed, n_train=14, n_test=6, refit=False, level=0.0, rare=False):
    warnings.filterwarnings("ignore")
    import joblib
    from sktime.utils.data_processing import from_nested_to_3d_numpy
    ncol = E.ncol(entry)
    Xtr, ytr = E.make_panel(n_train, ncol, 12, seed, labels=labels, noise=3.0)
    Xte, yte = E.make_panel(n_test, ncol, 12, seed + 77, labels=labels, noise=3.0)
    if level:      # large level relative to the variation (numerical robustness of interval features)
        Xtr = Xtr.applymap(lambda c: c + level)
        Xte = Xte.applymap(lambda c: c + level)
    if entry["name"].startswith("tsf") and seed % 5 == 4 and not level:
        # sensor counts: a narrow integer dtype whose products with the time index do not fit the dtype
        # raw 16-bit sensor counts as a 3-D array: a random level per instance, the classes differ in their
        # slope only, so the trees have to use the slope features
        def counts(n, sd):
            r = np.random.RandomState(sd)
            K = len(labels)
            yy = np.array([labels[i % K] for i in range(n)], dtype=object if isinstance(labels[0], str) else None)
            t = np.arange(24)
            sl = np.array([(-1) ** (i % K) * (25 + 30 * ((i % K) // 2)) for i in range(n)]) + r.uniform(-8, 8, n)
            X = r.uniform(2000, 6000, n)[:, None] + sl[:, None] * (t - 12) + 100 * r.randn(n, 24)     # the level says nothing
            return np.round(X).astype(np.int16)[:, None, :], yy
        (Xtr, ytr), (Xte, yte) = counts(30, seed), counts(n_test, seed + 77)
    if isinstance(labels[0], str):
        ytr, yte = np.array(list(ytr), dtype=object), np.array(list(yte), dtype=object)
    sorted_labels = sorted(set(labels))
    if rare:
        # the class that sorts first has a single training instance: members trained on a subsample may never see it
        first = [i for i, l in enumerate(ytr) if l == sorted_labels[0]]
        keep = sorted([i for i in range(len(ytr)) if i not in first[1:]])
        Xtr, ytr = Xtr.iloc[keep].reset_index(drop=True), ytr[keep]
    rank = {l: i + 1 for i, l in enumerate(sorted_labels)}
    try:
        with joblib.parallel_backend("threading"):
            clf = entry["factory"]()
            if refit and len(sorted_labels) >= 3:
                # the same object was fitted before on data that lacks the smallest label
                keep = [i for i, l in enumerate(ytr) if l != sorted_labels[0]]
                clf.fit(Xtr[keep] if isinstance(Xtr, np.ndarray) else Xtr.iloc[keep].reset_index(drop=True), ytr[keep])
            clf.fit(Xtr, ytr)
            proba = np.asarray(clf.predict_proba(Xte))
            pred = clf.predict(Xte)
            score = clf.score(Xte, yte)
        o = {"proba": [dec_row(r) for r in proba],
             "classes": [rank.get(c if not isinstance(c, np.generic) else c.item(), 0) for c in clf.classes_],
             "pred": [rank.get(p if not isinstance(p, np.generic) else p.item(), 0) for p in pred],
             "score": rational(float(score)) or [],
             "label_type_ok": all(type(p if not isinstance(p, np.generic) else p.item()) is type(labels[0]) for p in pred),
             "members": []}
        # aggregation rules
        name = type(clf).__name__
        if name == "TimeSeriesForestClassifier":
            X2 = np.asarray(Xte if isinstance(Xte, np.ndarray) else from_nested_to_3d_numpy(Xte), dtype=float).squeeze(1)
            o["members"] = [[dec_row(r) for r in tree] for tree in tree_outputs(clf, X2, "predict_proba", proba)]
        elif name == "SupervisedTimeSeriesForest":
            # every tree on its own intervals of the series, its periodogram and its differences, its columns placed at
            # the positions of its own classes
            from scipy import signal
            X2 = np.asarray(from_nested_to_3d_numpy(Xte).squeeze(1), dtype=float)
            X_p = signal.periodogram(X2)[1]
            X_d = np.diff(X2, 1)
            mem = []
            for est, iv in zip(clf.estimators_, clf.intervals_):
                if not hasattr(clf, "_transform"):
                    mem = []        # the (private) feature helper is gone: the tree-average clause is not evaluated
                    break
                feat = np.concatenate((clf._transform(X2, iv[0]), clf._transform(X_p, iv[1]), clf._transform(X_d, iv[2])), axis=1)
                pr = est.predict_proba(feat)
                full = np.zeros((len(X2), len(clf.classes_)))
                for j, c in enumerate(est.classes_):
                    full[:, list(clf.classes_).index(c)] = pr[:, j]
                mem.append([dec_row(r) for r in full])
            o["members"] = mem
        elif name == "BOSSEnsemble":
            # every fitted member casts one vote per instance for the class it predicts
            mem = []
            for member in clf.classifiers:
                votes = member.predict(Xte)
                mem.append([[[1, 1] if rank.get(v if not isinstance(v, np.generic) else v.item(), 0) == k + 1 else [0, 1]
                             for k in range(len(sorted_labels))] for v in votes])
            o["members"] = mem
        elif name == "ContractableBOSS":
            # every member votes with its weight for the class it predicts; the shares are taken of the total weight,
            # in the columns of the ENSEMBLE's classes (also for a member that has not seen every class)
            want = np.zeros((len(yte), len(clf.classes_)))
            for w_, member in zip(clf.weights, clf.classifiers):
                for i_, v in enumerate(member.predict(Xte)):
                    want[i_, list(clf.classes_).index(v)] += w_
            want = want / float(np.sum(clf.weights))
            if not np.allclose(want, proba, rtol=1e-9, atol=1e-12):
                raise AssertionError("WeightedVoteShares: ContractableBOSS reports %s, its members' weighted votes give %s"
                                     % (proba.tolist()[:3], want.tolist()[:3]))
        elif name == "ColumnEnsembleClassifier":
            mem = []
            for (nm, est, cols) in clf.estimators_:
                if isinstance(est, str):      # 'drop'
                    continue
                mem.append([dec_row(r) for r in est.predict_proba(Xte.iloc[:, cols] if isinstance(cols, list) else Xte.iloc[:, [cols]])])
            o["members"] = mem
        cfg = {"n": n_test, "K": len(sorted_labels), "truth": [rank[t if not isinstance(t, np.generic) else t.item()] for t in yte]}
        return cfg, o
    except Exception as e:
        import traceback
        return None, {"crash": type(e).__name__ + ": " + str(e)[:140] + " @ " + traceback.format_exc().splitlines()[-3].strip()[:100]}


def observe_regressor(seed):
    """Forest regressor: predictions equal the average of the fitted trees on mean / std / slope of their intervals."""
    from sktime.regression.interval_based import TimeSeriesForestRegressor
    from sktime.utils.data_processing import from_nested_to_3d_numpy
    import joblib
    Xtr, ytr = E.make_panel(14, 1, 12, seed, noise=3.0)
    Xte, _ = E.make_panel(6, 1, 12, seed + 77, noise=3.0)
    if seed % 2:   # un-normalised readings: a large level with small variation (every digit of the raw values counts)
        Xtr = Xtr.applymap(lambda c: c * 0.003 + 101325.0)
        Xte = Xte.applymap(lambda c: c * 0.003 + 101325.0)
    yv = np.array([float(i % 5) + 0.5 * (i % 2) for i in range(14)])
    with joblib.parallel_backend("threading"):
        reg = TimeSeriesForestRegressor(n_estimators=4, random_state=seed).fit(Xtr, yv)
        pred = reg.predict(Xte)
    X2 = from_nested_to_3d_numpy(Xte).squeeze(1)
    trees = tree_outputs(reg, X2, "predict", pred)
    return pred, trees.mean(axis=0)


def run(ctx):
    # the aggregation rule and the clauses are TLA+ operators evaluated by the judge on every recorded run; the
    # bounded model of PanelEstim (shared with C16) is checked here as the design-level run
    ctx.model_check("MCPanelEstim", "MCPanelEstim.%s.cfg" % ctx.tier, coverage=False)
    ctx.exhaustive = False
    from sktime.classification.dictionary_based import MUSE
    entries = E.classifiers() + [{"name": "muse_chi2", "kind": "classifier", "factory": lambda: MUSE(random_state=0),
                                  "methods": ["predict", "predict_proba"], "multivariate": False, "cost": "fast"}]
    nseeds = 6 if ctx.quick else 20
    recs = []
    for ei, entry in enumerate(entries):
        slow = entry.get("cost") == "slow"
        for li, labels in enumerate(LABEL_SETS):
            seeds = list(range(nseeds)) if not slow else ([0, 2] if ctx.quick else [0, 1, 2, 3, 5, 7])
            if ctx.quick and entry["name"].startswith("boss_ensemble") and li == 2:
                seeds = seeds + [1]     # two classes, unbalanced: members disagree and votes tie
            if ctx.quick and entry["name"] == "cboss" and li in (1, 4):
                seeds = seeds + [1, 3]     # three / four classes, the first with a single training instance
            for s in seeds:
                if slow and ctx.quick and li in (3, 5):
                    continue
                seed = ctx.seed * 1000 + ei * 100 + li * 10 + s
                unbalanced = (s % 2 == 1)
                refit, level = (s % 3 == 2), (1.0e8 if s % 4 == 3 else 0.0)
                ntr = 14 if not unbalanced else 11
                if entry["name"].startswith("stsf") and len(labels) >= 3 and s % 2 == 0:
                    ntr = 2 * len(labels)       # two instances per class: bootstrap samples regularly miss a class
                rare = bool(entry["name"] == "cboss" and len(labels) >= 3 and s % 2 == 1)
                cfg, obs = observe(entry, labels, seed, n_train=ntr, refit=refit, level=level, rare=rare)
                ctx.evaluations += 1
                sc = {"classifier": entry["name"], "labels": labels, "seed": seed, "n_train": ntr, "rare": rare,
                      "refit": refit, "level": level}
                if cfg is None:
                    if entry["name"] == "muse_chi2" and "Found array with 0 feature(s)" in obs["crash"] and \
                            ctx.known_finding("MUSE-empty-bag", sc):
                        continue
                    ctx.violation(sc, "crash on valid input: " + obs["crash"])
                    continue
                recs.append({"tid": len(recs), "cfg": cfg, "obs": obs, "sc": sc})
                ctx.nontriv(sc)
                if s == 0 and li == 1 and ei % 2 == 0:
                    ctx.sample({"scenario": sc, "classes": obs["classes"], "pred": obs["pred"], "proba_row_1": obs["proba"][0],
                                "score": obs["score"]})
    rejects, _ = ctx.judge("TraceProba", "TraceProba.cfg", [{k: x[k] for k in ("tid", "cfg", "obs")} for x in recs], timeout=2400)
    ctx.traces += len(recs) - len(rejects)
    for rec in recs:
        if rec["tid"] in rejects:
            ctx.violation(rec["sc"], "TLC rejects %s with labels %s: %s; classes %s pred %s score %s"
                          % (rec["sc"]["classifier"], rec["sc"]["labels"], rejects[rec["tid"]], rec["obs"]["classes"],
                             rec["obs"]["pred"], rec["obs"]["score"]))
    for s in range(3 if ctx.quick else 15):
        ctx.evaluations += 1
        try:
            pred, avg = observe_regressor(ctx.seed * 100 + s)
            if not np.allclose(pred, avg, rtol=1e-9, atol=1e-9):
                ctx.violation({"regressor": "tsf_regressor", "seed": ctx.seed * 100 + s},
                              "ForestIsTreeAverage: forest regressor predicts %s, average of its trees on mean/std/slope gives %s"
                              % (list(pred), list(avg)))
        except Exception as e:
            ctx.violation({"regressor": "tsf_regressor", "seed": ctx.seed * 100 + s}, "crash: %s %s" % (type(e).__name__, str(e)[:120]))
    return ctx.finish(
        rule="Every runnable classifier (time series forest incl. n_jobs, individual / ensemble / contractable "
             "BOSS, column ensemble) is fitted on small noisy panels for 6 label sets (integers, non-contiguous, "
             "negative, strings incl. mixed case, 4 classes), balanced and unbalanced, several seeds; probabilities "
             "are decoded to exact rationals and TraceProba.tla evaluates on every run: one row per instance, one "
             "column per training class, entries in [0,1] summing to exactly 1, classes_ sorted, predict = a label "
             "attaining the row maximum, label type preserved, score = fraction correct, forest probabilities = "
             "average of the fitted trees on mean / std / slope of their intervals (features recomputed by the "
             "harness), column ensemble = average of its members on their own columns; the forest regressor is "
             "compared with the average of its trees. Non-trivial = every run; distinct by (classifier, labels, seed).",
        assumptions=["compat shim; numba stubs", "probability rows that are not small rationals (accuracy-weighted votes) are put on a 1e-4 grid (monotone rounding) when the float row sums to 1 within 1e-9",
                     "sklearn's tree induction is trusted; which features reach which tree and how outputs are averaged is checked"])


def replay(ctx, doc):
    sc = doc["scenario"]
    if "regressor" in sc:
        pred, avg = observe_regressor(sc["seed"])
        ok = np.allclose(pred, avg, rtol=1e-9, atol=1e-9)
        print(pred, avg)
        if not ok:
            print("VIOLATION property=C17 replay=%s" % ctx.replay)
        return 0 if ok else 1
    from sktime.classification.dictionary_based import MUSE
    entry = [e for e in E.classifiers() + [{"name": "muse_chi2", "factory": lambda: MUSE(random_state=0)}]
             if e["name"] == sc["classifier"]][0]
    cfg, obs = observe(entry, sc["labels"], sc["seed"], sc.get("n_train", 14), refit=sc.get("refit", False),
                       level=sc.get("level", 0.0), rare=sc.get("rare", False))
    print("observed:", canon(obs)[:1500])
    if cfg is None:
        print("VIOLATION property=C17 replay=%s" % ctx.replay)
        return 1
    rejects, _ = ctx.judge("TraceProba", "TraceProba.cfg", [{"tid": 0, "cfg": cfg, "obs": obs}])
    if rejects:
        print("VIOLATION property=C17 replay=%s %s" % (ctx.replay, rejects))
        return 1
    print("replay accepted")
    return 0
