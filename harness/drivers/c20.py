"""C20 -- malformed data, horizons and settings are rejected. Spec: spec/Validation.tla
(the Applicable table is generated from harness/tables/validation_table.py and frozen in the spec)."""
import warnings

import numpy as np
import pandas as pd

from harness import tlc as T
from harness.core import canon
from harness.tables import validation_table as VT

REJECT = (ValueError, TypeError, NotImplementedError)


def fitted_of(est):
    if est is None:
        return False
    try:
        return bool(est.is_fitted)
    except Exception:
        return bool(getattr(est, "_is_fitted", False))


def call(thunk_maker, ctxd):
    """Returns (outcome, fitted_before, fitted_after, exception name)."""
    try:
        thunk = thunk_maker(ctxd)
    except REJECT as e:           # rejected while building (e.g. constructor validation)
        return "rejected", False, False, type(e).__name__
    except Exception as e:
        return "other", False, False, type(e).__name__ + ": " + str(e)[:80]
    est = None
    # the estimator is the second element returned; find it beforehand through the closure when possible
    cells = [c.cell_contents for c in (thunk.__closure__ or []) if hasattr(c.cell_contents, "get_params")]
    est = cells[0] if cells else None
    before = fitted_of(est)
    try:
        res, est2 = thunk()
        return "returned", before, fitted_of(est2 if est2 is not None else est), ""
    except REJECT as e:
        return "rejected", before, fitted_of(est), type(e).__name__
    except Exception as e:
        return "other", before, fitted_of(est), type(e).__name__ + ": " + str(e)[:80]


def seq_faults():
    """Faulty calls usable inside sequences on a NaiveForecaster / trend forecaster."""
    return {
        "F_fit": [("unsorted_index", lambda f, c: f.fit(c["y"].iloc[[1, 0] + list(range(2, c["n"] - 6))])),
                  ("multivariate_target", lambda f, c: f.fit(pd.DataFrame({"a": c["y"], "b": c["y"]}))),
                  ("duplicate_horizon", lambda f, c: f.fit(c["y"].iloc[:-6], fh=[1, 1])),
                  ("empty_index", lambda f, c: f.fit(c["y"].iloc[:0]))],
        "F_predict": [("duplicate_horizon", lambda f, c: f.predict([2, 2])), ("fractional_horizon", lambda f, c: f.predict([1.5])),
                      ("wrongtype_horizon", lambda f, c: f.predict("soon")), ("empty_horizon", lambda f, c: f.predict([]))],
        "F_update": [("unsorted_index", lambda f, c: f.update(c["y"].iloc[[-1, -2]], update_params=False)),
                     ("array_target", lambda f, c: f.update(c["y"].iloc[-2:].values, update_params=False)),
                     ("multivariate_target", lambda f, c: f.update(pd.DataFrame({"a": c["y"].iloc[-2:], "b": c["y"].iloc[-2:]}),
                                                                   update_params=False))],
    }


def run_plan(plan, mk, c, fault):
    """Execute plan; the faulty step uses `fault`; returns (results of valid calls, rejected flag)."""
    f = mk()
    n = c["n"]
    pos = n - 6
    out = []
    rejected = True
    for op in plan:
        if op == "fit":
            f.fit(c["y"].iloc[:pos], fh=[1, 2])
            out.append(("fit", int(f.cutoff), bool(f.is_fitted)))
        elif op == "update":
            f.update(c["y"].iloc[pos:pos + 2], update_params=False)
            pos += 2
            out.append(("update", int(f.cutoff)))
        elif op == "predict":
            p = f.predict([1, 2])
            out.append(("predict", [int(i) for i in p.index], [round(float(v), 9) for v in p.values]))
        else:
            if fault is None:
                continue
            before = bool(f.is_fitted)
            try:
                fault(f, c)
                rejected = False
            except REJECT:
                rejected = rejected and bool(f.is_fitted) == before
            except Exception:
                rejected = False
    return out, rejected


def run(ctx):
    warnings.filterwarnings("ignore")
    from sktime.forecasting.naive import NaiveForecaster
    from sktime.forecasting.trend import PolynomialTrendForecaster
    ctx.model_check("MCValidation", "MCValidation.%s.cfg" % ctx.tier, coverage=False)
    r = T.must(T.run("MCValidation", "MCValidation.%s.emit.cfg" % ctx.tier, ctx.work, workers=1), "plans")
    plans = sorted({tuple(v["plan"]) for v in r.printed})
    if len(plans) < 10:
        raise T.TLCError("vacuity: %d plans" % len(plans))
    rows = VT.rows()
    ctx.notes.append("applicable (entry, fault) pairs: %d; fault sequences from TLC: %d" % (len(rows), len(plans)))
    recs = []
    nctx = 3 if ctx.quick else 20
    for ri, (entry, fault, faulty, control) in enumerate(rows):
        for k in range(nctx):
            c = VT.context(ctx.seed * 100 + k)
            fo, fb, fa, exc = call(faulty, c)
            co, _, _, cexc = call(control, VT.context(ctx.seed * 100 + k))
            ctx.evaluations += 1
            recs.append({"tid": len(recs), "kind": "call", "entry": entry, "fault": fault, "outcome": fo,
                         "fitted_before": fb, "fitted_after": fa, "control": co, "rejected": True, "same": True,
                         "detail": exc or cexc, "ctx": ctx.seed * 100 + k})
            if k == 0:
                ctx.nontriv((entry, fault))
        if ri % 40 == 0:
            ctx.sample({"entry": entry, "fault": fault, "outcome": recs[-1]["outcome"], "exception": recs[-1]["detail"],
                        "control": recs[-1]["control"]})
    # fault sequences
    sf = seq_faults()
    for pi, plan in enumerate(plans):
        kind = [p for p in plan if p.startswith("F_")][0]
        from sktime.forecasting.compose import make_reduction
        from harness.scope import ZeroDimLinear
        cands = [("naive", lambda: NaiveForecaster("mean", window_length=3), sf[kind]),
                 ("poly", lambda: PolynomialTrendForecaster(degree=1), sf[kind])]
        if kind == "F_predict":      # horizon-dependent forecaster: a differing horizon is rejected and leaves no trace
            cands.append(("reduce_direct", lambda: make_reduction(ZeroDimLinear(), strategy="direct", window_length=3),
                          [("horizon_differs_from_fit", lambda f, c: f.predict([1, 3]))]))
        for mkname, mk, faults in cands:
            for fname, fault in faults:
                if kind == "F_fit" and plan[0] != "F_fit" and fname == "duplicate_horizon":
                    continue      # a rejected HORIZON comes after the call's (valid) data were taken in: not claimed
                c = VT.context(ctx.seed * 100 + pi % 5)
                ctx.evaluations += 1
                sc = {"plan": list(plan), "forecaster": mkname, "fault": fname}
                try:
                    clean, _ = run_plan(plan, mk, c, None)
                    got, rejected = run_plan(plan, mk, c, fault)
                except Exception as e:
                    ctx.violation(sc, "crash in fault sequence: %s %s" % (type(e).__name__, str(e)[:120]))
                    continue
                recs.append({"tid": len(recs), "kind": "seq", "entry": "", "fault": fname, "outcome": "", "fitted_before": False,
                             "fitted_after": False, "control": "", "rejected": bool(rejected), "same": bool(got == clean),
                             "detail": canon(sc), "ctx": 0})
                ctx.nontriv(sc)
    rejects, _ = ctx.judge("TraceValidation", "TraceValidation.cfg",
                           [{k: x[k] for k in x if k not in ("detail", "ctx")} for x in recs])
    ctx.traces += len(recs) - len(rejects)
    for rec in recs:
        if rec["tid"] in rejects:
            if rec["kind"] == "call":
                ctx.violation({"entry": rec["entry"], "fault": rec["fault"], "context": rec["ctx"]},
                              "%s given %s: %s (faulty call %s, is_fitted %s -> %s, control %s; %s)"
                              % (rec["entry"], rec["fault"], rejects[rec["tid"]], rec["outcome"], rec["fitted_before"],
                                 rec["fitted_after"], rec["control"], rec["detail"]))
            else:
                ctx.violation({"sequence": rec["detail"]}, "fault sequence %s: %s" % (rec["detail"], rejects[rec["tid"]]))
    return ctx.finish(
        rule="The Applicable table (186 entry-point x fault-class pairs over forecasters, composites, reducers, "
             "splitters, evaluate, tuning, temporal_train_test_split and ForecastingHorizon) is frozen in "
             "Validation.tla; every pair is executed in 3 (20) random valid contexts as a faulty call and as its control "
             "(same call with only the offending aspect repaired) and TraceValidation.tla requires: rejected with "
             "ValueError / TypeError / NotImplementedError, is_fitted unchanged, control accepted; TLC enumerates fault "
             "sequences (one faulty fit / predict / update at any position of up to 4 calls), each replayed with "
             "several concrete faults against the fault-free sequence. Non-trivial = every pair / sequence.",
        assumptions=["compat shim", "faults are only generated where the property statement names them; on an already fitted forecaster only faulty DATA are generated for fit (a rejected horizon comes after the call's valid data were taken in; not claimed)"])


def replay(ctx, doc):
    return run(ctx)
