"""C04 -- every estimator obeys the scikit-learn protocol. Spec: spec/Estimator.tla; static constructor scan in
harness/static_init.py (covers classes that cannot be imported here)."""
import json
import os
import warnings

import numpy as np
import pandas as pd

from harness import estimators as E
from harness import scope
from harness import static_init
from harness import tlc as T
from harness.core import canon, VERIF

PREFER = ["n_estimators", "window_length", "degree", "n_intervals", "num_intervals", "word_length", "n_lags", "pad_length",
          "length", "random_state", "fill_value", "n_sigma", "strategy", "aggfunc", "with_intercept", "passthrough", "lower",
          "max_ensemble_size", "num_levels", "num_bins", "n_components", "sp", "deseasonalize", "value"]
SKIP = {"damped_trend", "use_boxcox", "n_jobs", "verbose", "refit", "return_bool", "save_words", "remove_repeat_words", "norm", "levels", "igb", "bigrams"}
STR_ALT = {"strategy": {"last": "mean", "mean": "last", "drift": "last", "refit": "update"}, "aggfunc": {"mean": "median", "median": "mean"},
           "model": {"additive": "multiplicative", "multiplicative": "additive"}, "method": {"mle": "pearsonr", "pearsonr": "mle"}}


def alt_of(name, v):
    if isinstance(v, (bool, np.bool_)):
        return not v
    if isinstance(v, (int, np.integer)):
        return int(v) + 1
    if isinstance(v, float):
        return v * 0.5 + 0.25
    if isinstance(v, str) and name.split("__")[-1] in STR_ALT and v in STR_ALT[name.split("__")[-1]]:
        return STR_ALT[name.split("__")[-1]][v]
    return None


def same(a, b):
    if a is b:
        return True
    try:
        if hasattr(a, "get_params") or hasattr(b, "get_params"):
            return type(a) is type(b) and repr(a) == repr(b)
        r = (a == b)
        return bool(r) if not hasattr(r, "all") else bool(np.all(r))
    except Exception:
        return repr(a) == repr(b)


def all_entries():
    L = []
    for e in scope.forecasters():
        L.append({"name": "fc_" + e["name"], "kind": "forecaster", "factory": e["factory"], "req": e["mode"] == "req"})
    # the online ensemble with a weighting algorithm (protocol only: its weights depend on the update history)
    def online():
        from sktime.forecasting.online_learning._online_ensemble import OnlineEnsembleForecaster
        from sktime.forecasting.online_learning._prediction_weighted_ensembler import NormalHedgeEnsemble
        from sktime.forecasting.naive import NaiveForecaster
        from sklearn.metrics import mean_squared_error
        return OnlineEnsembleForecaster([("a", NaiveForecaster("last")), ("b", NaiveForecaster("mean"))],
                                        ensemble_algorithm=NormalHedgeEnsemble(n_estimators=2, loss_func=mean_squared_error))
    L.append({"name": "fc_online_ensemble", "kind": "forecaster", "factory": online, "req": False})
    # a conditional deseasonalizer left at its default seasonality test (None: the default is chosen in fit and must
    # stay out of the constructor parameters)
    def cond_default():
        from sktime.transformations.series.detrend import ConditionalDeseasonalizer
        return ConditionalDeseasonalizer(sp=4)
    L.append({"name": "cond_deseason_default", "kind": "series-transformer", "factory": cond_default,
              "methods": ["transform", "inverse_transform"], "inverse": True, "positive": False, "same_index": True,
              "missing": False, "update": True, "frame": False})
    for e in E.series_transformers() + E.panel_transformers() + E.classifiers() + E.regressors():
        if not e["name"].endswith("reconfigured"):     # deliberately handed over in a fitted, re-parameterised state
            L.append(dict(e))
    return L


def fit_data(entry, seed):
    k = entry["kind"]
    if k in ("forecaster", "series-transformer"):
        n = 30
        t = np.arange(n)
        y = pd.Series(40 + 0.5 * t + 3 * np.sin(2 * np.pi * t / 4) + np.random.RandomState(seed).rand(n))
        if entry.get("frame"):
            return (pd.DataFrame({"a": y, "b": y * 0.5 + 1}),), {}
        return (y,), ({"fh": [1, 2]} if k == "forecaster" else {})
    ncol = E.ncol(entry)
    X, yy = E.make_panel(10, ncol, entry.get("tp", 12), seed, noise=2.0)
    return (X, np.asarray(yy, dtype=float) if k == "regressor" else yy), {}


def apply_calls(entry, est, args):
    k = entry["kind"]
    y = args[0]
    if k == "forecaster":
        return [lambda: est.predict([1]), lambda: est.predict(), lambda: est.update(y.iloc[-2:] if hasattr(y, "iloc") else y),
                lambda: est.update_predict_single(y.iloc[-2:], fh=[1]), lambda: est.update_predict(y.iloc[-4:]),
                lambda: est.score(y.iloc[-2:], fh=[1, 2])]
    if k == "series-transformer":
        c = [lambda: est.transform(y)]
        if entry.get("inverse"):
            c.append(lambda: est.inverse_transform(y))
        return c
    if k == "panel-transformer":
        return [lambda: est.transform(args[0])]
    if k == "classifier":
        return [lambda: est.predict(args[0]), lambda: est.predict_proba(args[0]), lambda: est.score(args[0], args[1])]
    return [lambda: est.predict(args[0]), lambda: est.score(args[0], args[1])]


def not_fitted_outcome(calls):
    from sktime.exceptions import NotFittedError
    for c in calls:
        try:
            c()
            return "returned"
        except NotFittedError:
            continue
        except Exception as e:
            return "other:" + type(e).__name__
    return "notfitted"


def walk_params(est):
    """Independent derivation of the deep parameter dictionary: the shallow parameters, and recursively
    <name>__<param> for every estimator-valued parameter and every (name, estimator, ...) entry of a list parameter."""
    out = {}
    for k, v in est.get_params(deep=False).items():
        out[k] = v
        if hasattr(v, "get_params") and not isinstance(v, type):
            for kk, vv in walk_params(v).items():
                out[k + "__" + kk] = vv
        elif isinstance(v, list) and v and all(isinstance(t, tuple) and len(t) >= 2 and isinstance(t[0], str) for t in v):
            for t in v:
                out[t[0]] = t[1]
                if hasattr(t[1], "get_params") and not isinstance(t[1], type):
                    for kk, vv in walk_params(t[1]).items():
                        out[t[0] + "__" + kk] = vv
    return out


def deep_closure_ok(est):
    w, d = walk_params(est), est.get_params(deep=True)
    return set(w) == set(d) and all(same(w[k], d[k]) for k in w)


def track(est):
    """Which real parameter each abstract tracked name stands for, with its original and alternative value."""
    shallow = est.get_params(deep=False)
    deep = walk_params(est)
    tr = {}
    plain = [n for n in PREFER if n in shallow] + [n for n in sorted(shallow) if n not in PREFER]
    for n in plain:
        a = alt_of(n, shallow[n]) if n not in SKIP else None
        if a is not None and "p1" not in tr:
            tr["p1"] = (n, shallow[n], a)
        elif a is not None and "p2" not in tr and n != tr["p1"][0]:
            tr["p2"] = (n, shallow[n], a)
    comps = [n for n in sorted(deep) if "__" not in n and n not in shallow and hasattr(deep[n], "get_params")]
    cname = None
    if comps:
        from sktime.forecasting.base._base import BaseForecaster
        from sktime.forecasting.naive import NaiveForecaster
        # replace (as a whole) the forecaster component with the fewest parameters of its own, so that the deeper
        # nested names stay available for the nested read / write checks
        cand = sorted([n for n in comps if isinstance(deep[n], BaseForecaster)],
                      key=lambda n: (len(deep[n].get_params(deep=True)), n))
        if cand:
            n = cand[0]
            tr["c"] = (n, deep[n], NaiveForecaster(strategy="last", sp=7))
            cname = n
    # the nested parameters are taken from other components than the one that gets replaced as a whole
    nested = [n for n in sorted(deep) if "__" in n and n.split("__")[-1] not in SKIP
              and not (cname and n.startswith(cname + "__"))]
    for key, pool in (("c__p", [n for n in nested if n.count("__") == 1] or nested),
                      ("c__c__p", [n for n in nested if n.count("__") >= 2])):
        for n in [x for x in pool if x.split("__")[-1] in PREFER] + pool:
            a = alt_of(n, deep[n])
            if a is not None and not any(n == t[0] for t in tr.values()):
                tr[key] = (n, deep[n], a)
                break
    return tr


def tokens(est, tr):
    out = {}
    try:
        deep = est.get_params(deep=True)
    except Exception:
        return {k: "error" for k in tr}
    for k, (real, orig, alt) in tr.items():
        v = deep.get(real, "<missing>")
        out[k] = "orig" if same(v, orig) else ("alt" if same(v, alt) else "other")
    return out


def deep_state(est, values=True):
    """Identity and fitted flag of every estimator-valued constructor argument (also inside lists of tuples)."""
    out = []

    def visit(path, v):
        if hasattr(v, "get_params") and not isinstance(v, type):
            out.append((path, id(v), bool(getattr(v, "_is_fitted", False)),
                        tuple(sorted(k for k in vars(v) if k.endswith("_") and not k.startswith("_"))),
                        # ... and their own plain parameter values
                        tuple(sorted((k, repr(w)) for k, w in v.get_params(deep=False).items()
                                     if not hasattr(w, "get_params") and not isinstance(w, (list, tuple, dict)))) if values else ()))
            for k, w in v.get_params(deep=False).items():
                visit(path + "." + k, w)
        elif isinstance(v, (list, tuple)):
            for i, w in enumerate(v):
                visit(path + "[%d]" % i, w)
    for k, w in est.get_params(deep=False).items():
        visit(k, w)
    return out


def plain_params(est):
    """Every non-estimator constructor parameter (deep), by value and type."""
    out = []
    for k, v in sorted(walk_params(est).items()):
        if hasattr(v, "get_params") or isinstance(v, (list, tuple, dict)) or callable(v):
            continue
        out.append((k, type(v).__name__, repr(v)))
    return out


def passed_exactly(entry):
    """The constructor keeps what it is given: every integer-valued parameter handed over as a numpy integer (as it
    comes out of an array or a parameter grid) is returned by get_params as that very object."""
    est = entry["factory"]()
    bad = []
    shallow = est.get_params(deep=False)
    # every argument given to the constructor is what get_params returns (also where the default is None)
    for k, v in sorted(shallow.items()):
        a = alt_of(k, v) if k not in SKIP else None
        if a is None and v is None and k in ("window_length", "sp", "n_intervals", "lower", "upper", "pad_length"):
            a = 3
        if a is None:
            continue
        try:
            other = type(est)(**dict(shallow, **{k: a}))
        except Exception:
            continue
        got = other.get_params(deep=False)[k]
        if not same(got, a):
            bad.append("%s=%r comes back as %r" % (k, a, got))
    for k, v in sorted(shallow.items()):
        if isinstance(v, bool) or not isinstance(v, (int, np.integer)):
            continue
        given = np.int64(v)
        try:
            other = type(est)(**dict(shallow, **{k: given}))
        except Exception:
            continue        # a constructor that insists on built-in integers: validation, not part of C04
        got = other.get_params(deep=False)[k]
        if got is not given:
            bad.append("%s=np.int64(%d) comes back as %s %r" % (k, v, type(got).__name__, got))
    return bad


def two_components(entry):
    """One set_params call replacing TWO components by name installs both."""
    from sktime.forecasting.naive import NaiveForecaster
    est = entry["factory"]()
    shallow = est.get_params(deep=False)
    lname = next((n for n in ("forecasters", "steps") if n in shallow and isinstance(shallow[n], list)), None)
    if lname is None or len(shallow[lname]) < 2 or lname == "steps":
        return None
    names = [t[0] for t in shallow[lname]]
    a, b = NaiveForecaster(strategy="last", sp=7), NaiveForecaster(strategy="mean", sp=5)
    est.set_params(**{names[0]: a, names[-1]: b})
    deep = est.get_params(deep=True)
    now = dict((t[0], t[1]) for t in est.get_params(deep=False)[lname])
    return deep.get(names[0]) is a and deep.get(names[-1]) is b and now.get(names[0]) is a and now.get(names[-1]) is b


def replace_and_nested(entry):
    """One set_params call that replaces a component by name AND sets a parameter of that (new) component."""
    from sktime.forecasting.naive import NaiveForecaster
    est = entry["factory"]()
    shallow = est.get_params(deep=False)
    lname = next((n for n in ("forecasters", "steps") if n in shallow and isinstance(shallow[n], list)), None)
    if lname is None:
        return None
    name = shallow[lname][-1][0]
    new = NaiveForecaster(strategy="last")
    est.set_params(**{name: new, name + "__strategy": "drift"})
    deep = est.get_params(deep=True)
    return deep.get(name) is new and new.strategy == "drift" and deep.get(name + "__strategy") == "drift"


def run_plan(entry, plan, seed, tid):
    warnings.filterwarnings("ignore")
    from sklearn.base import clone
    import joblib
    ev = []

    def emit(op, name, rej, est, self_ok=True, fitted=None):
        ev.append({"tid": tid, "i": len(ev) + 1, "op": op, "name": name,
                   "obs": {"rej": rej, "params": tokens(est, tr), "fitted": bool(est.is_fitted if fitted is None else fitted),
                           "self": bool(self_ok), "sib": tokens(sib, tr), "sibfitted": bool(sib.is_fitted),
                           "sibstate": deep_state(sib, values=False) == sib0, "deepok": deep_closure_ok(est)}})
    est = entry["factory"]()
    tr = track(est)
    # a sibling built from the very same argument objects (same component list, same component instances): what is
    # done to `est` must not show in it, except through component objects the two deliberately share
    sib = type(est)(**est.get_params(deep=False))
    sib0 = deep_state(sib, values=False)      # (nested parameter VALUES are shared with `est` by design)
    args, kw = fit_data(entry, seed)
    emit("construct", "", "", est)
    with joblib.parallel_backend("threading"):
        for op, name in plan:
            if op in ("set_alt", "set_orig") and name not in tr:
                op, name = "get", ""
            if op == "get":
                emit("get", "", "", est)
            elif op == "set_same":
                r = est.set_params(**est.get_params(deep=False))
                emit("set_same", "", "", est, r is est)
            elif op in ("set_alt", "set_orig"):
                real, orig, alt = tr[name]
                try:
                    r = est.set_params(**{real: alt if op == "set_alt" else orig})
                    emit(op, name, "", est, r is est)
                except Exception as e:
                    emit(op, name, "other:" + type(e).__name__, est, False)
            elif op == "set_unknown":
                try:
                    est.set_params(no_such_parameter_xyz=1)
                    emit(op, "", "", est)
                except ValueError:
                    emit(op, "", "unknown", est, False)
                except Exception as e:
                    emit(op, "", "other:" + type(e).__name__, est, False)
            elif op == "clone":
                c = clone(est)
                emit("clone", "", "", c, False)
            elif op == "apply_unfitted":
                fresh = clone(est)
                emit(op, "", not_fitted_outcome(apply_calls(entry, fresh, args)), est, False)
            elif op == "fit":
                try:
                    before = (deep_state(est), plain_params(est))
                    r = est.fit(*args, **kw)
                    # constructor arguments (and the prototype objects among them) are left exactly as they were
                    emit("fit", "", "" if (deep_state(est), plain_params(est)) == before else "params_changed", est, r is est)
                except Exception as e:
                    emit("fit", "", "other:" + type(e).__name__ + ":" + str(e)[:60], est, False)
                    break
                c = clone(est)
                emit("clone_fitted", "", not_fitted_outcome(apply_calls(entry, c, args)), c, False)
    return ev, tr


def list_and_component(entry):
    """One set_params call that installs a new component list AND sets a component by a name that only the new
    list has (documented order: list first, then components); a name only the old list had must be rejected."""
    from sktime.forecasting.naive import NaiveForecaster
    est = entry["factory"]()
    shallow = est.get_params(deep=False)
    lname = next((n for n in ("forecasters", "steps") if n in shallow and isinstance(shallow[n], list)), None)
    if lname is None or entry["name"] == "fc_mux":
        return None
    old = list(shallow[lname])
    if lname == "steps":
        new = [("zz_new", old[0][1])] + old[1:]
        repl = old[0][1]
        gone = old[0][0]
    else:
        new = old[:-1] + [("zz_new", old[-1][1])]
        repl = NaiveForecaster(strategy="last", sp=7)
        gone = old[-1][0]
    res = {}
    try:
        est.set_params(**{lname: new, "zz_new": repl})
        res["installed"] = est.get_params(deep=True).get("zz_new") is repl
    except Exception as e:
        res["installed"] = "raised %s" % type(e).__name__
    est2 = entry["factory"]()
    try:
        est2.set_params(**{lname: new, gone: repl})
        res["old_name"] = "accepted"
    except ValueError:
        res["old_name"] = "rejected"
    except Exception as e:
        res["old_name"] = "raised %s" % type(e).__name__
    return res


def run(ctx):
    warnings.filterwarnings("ignore")
    ctx.model_check("MCEstimator", "MCEstimator.%s.cfg" % ctx.tier, coverage=False)
    r = T.must(T.run("MCEstimator", "MCEstimator.%s.emit.cfg" % ctx.tier, ctx.work, workers=1), "plans")
    plans = [[tuple(x) for x in v["plan"]] for v in r.printed]
    if len(plans) < 100:
        raise T.TLCError("vacuity: %d plans" % len(plans))
    ctx.notes.append("operation sequences emitted by TLC: %d" % len(plans))
    ctx.exhaustive = False
    entries = all_entries()
    trace, meta = [], {}
    tid = 0
    cover = ("set_alt", "set_unknown", "clone", "apply_unfitted", "fit")
    for ei, entry in enumerate(entries):
        slow = entry.get("cost") == "slow"
        k = (4 if slow else 14) if ctx.quick else (20 if slow else 120)
        chosen = ctx.rng.sample(plans, k)
        # one fixed plan per estimator that touches every kind of operation
        chosen.append([("set_alt", "p1"), ("set_alt", "c__p"), ("set_alt", "c__c__p"), ("set_unknown", ""), ("clone", ""),
                       ("apply_unfitted", ""), ("set_orig", "p1"), ("set_alt", "c"), ("fit", ""), ("get", "")])
        chosen.append([("set_alt", "c"), ("set_alt", "c__c__p"), ("set_orig", "c"), ("fit", ""), ("set_alt", "c__p")])
        for plan in chosen:
            tid += 1
            try:
                ev, tr = run_plan(entry, plan, ctx.seed + ei, tid)
            except Exception as e:
                import traceback
                ctx.violation({"estimator": entry["name"], "plan": [list(p) for p in plan]},
                              "crash: %s %s @ %s" % (type(e).__name__, str(e)[:120], traceback.format_exc().splitlines()[-3].strip()[:100]))
                continue
            ctx.evaluations += 1
            meta[tid] = {"estimator": entry["name"], "plan": [list(p) for p in plan], "tracked": {a: b[0] for a, b in tr.items()}}
            trace += ev
            if any(p[0] in cover for p in plan):
                ctx.nontriv(meta[tid])
        lc = list_and_component(entry) if entry["kind"] == "forecaster" else None
        if lc is not None:
            tid += 1
            ctx.evaluations += 1
            meta[tid] = {"estimator": entry["name"], "plan": [["set_list_and_component", ""]]}
            trace.append({"tid": tid, "i": 1, "op": "set_alt", "name": "c",
                          "obs": {"rej": "" if lc["installed"] is True else "other", "params": {"c": "alt" if lc["installed"] is True else "other"},
                                  "fitted": False, "self": True}})
            trace.append({"tid": tid, "i": 2, "op": "set_unknown", "name": "",
                          "obs": {"rej": "unknown" if lc["old_name"] == "rejected" else "other", "params": {}, "fitted": False, "self": False}})
        # numpy-integer arguments come back as passed; two components replaced in one call
        tid += 1
        ctx.evaluations += 1
        try:
            bad = passed_exactly(entry)
        except Exception as e:
            bad = ["crash: %s %s" % (type(e).__name__, str(e)[:100])]
        meta[tid] = {"estimator": entry["name"], "plan": [["construct_with_numpy_integers", ""]], "detail": bad[:3]}
        trace.append({"tid": tid, "i": 1, "op": "construct", "name": "",
                      "obs": {"rej": "" if not bad else "other", "params": {}, "fitted": False, "self": True}})
        if entry["kind"] == "forecaster":
            try:
                two = two_components(entry)
            except Exception as e:
                two = "crash %s" % type(e).__name__
            try:
                rn = replace_and_nested(entry)
            except Exception as e:
                rn = "crash %s" % type(e).__name__
            if rn is not None:
                tid += 1
                ctx.evaluations += 1
                meta[tid] = {"estimator": entry["name"], "plan": [["replace_component_and_set_its_parameter_in_one_call", ""]]}
                trace.append({"tid": tid, "i": 1, "op": "set_alt", "name": "c__p",
                              "obs": {"rej": "" if rn is True else "other", "params": {"c__p": "alt" if rn is True else "other"},
                                      "fitted": False, "self": True}})
            if two is not None:
                tid += 1
                ctx.evaluations += 1
                meta[tid] = {"estimator": entry["name"], "plan": [["replace_two_components_in_one_call", ""]]}
                trace.append({"tid": tid, "i": 1, "op": "set_alt", "name": "c",
                              "obs": {"rej": "" if two is True else "other", "params": {"c": "alt" if two is True else "other"},
                                      "fitted": False, "self": True}})
        if ei % 15 == 0:
            ctx.sample({"scenario": meta[tid], "events": [(e["op"], e["name"], e["obs"]) for e in ev][:6]})
    # static constructor scan of every estimator class in the source tree
    base = {(b["cls"], b["path"]) for b in json.load(open(os.path.join(VERIF, "harness", "tables", "static_baseline.json")))["not_judged"]}
    scan = static_init.scan(os.environ.get("VERIF_REPO", "/repo"))
    nstatic = 0
    for rec in scan:
        tid += 1
        nstatic += 1
        ok = rec["verdict"] in ("literal", "inherits") or (rec["cls"], rec["path"]) in base
        meta[tid] = {"static_class": rec["cls"], "path": rec["path"], "verdict": rec["verdict"], "not_stored": rec["missing"]}
        trace.append({"tid": tid, "i": 1, "op": "static", "name": rec["cls"],
                      "obs": {"rej": "" if ok else "not_stored", "params": {}, "fitted": False, "self": True}})
    ctx.notes.append("estimator classes scanned statically: %d" % nstatic)
    rejects, _ = ctx.judge("TraceEstimator", "TraceEstimator.cfg", trace, timeout=2400)
    ctx.traces += len(meta) - len(rejects)
    for t, clauses in rejects.items():
        bad = [e for e in trace if e["tid"] == t]
        ctx.violation(meta[t], "TLC rejects %s: %s; events %s" % (meta[t].get("estimator", meta[t].get("static_class")), clauses,
                                                                 canon([(e["op"], e["name"], e["obs"]["rej"], e["obs"]["params"], e["obs"]["fitted"]) for e in bad])[:400]))
    return ctx.finish(
        rule="TLC enumerates every sequence of up to 4(5) protocol operations (get_params, set_params with the same / an "
             "alternative / an unknown name for a plain parameter and a nested component__param, clone, apply before fit, "
             "fit) on the abstract estimator; each of the ~105 runnable estimator instances (forecasters incl. composites "
             "and tuners, series / panel transformers, classifiers, regressor) replays a seeded sample plus a fixed "
             "all-operations plan (incl. whole-component replacement), and TraceEstimator.tla validates what get_params "
             "shows, rejections (ValueError for unknown names, NotFittedError for every apply-type method before fit and on a "
             "clone of a fitted object), is_fitted, fit returning self and leaving parameters unchanged; every estimator "
             "class in the source tree (156, also those not importable here) is scanned statically for constructors "
             "that do not store an argument under its own name. Non-trivial = sequence with a set/clone/fit/apply operation.",
        assumptions=["compat shim", "parameter equality = identity, ==, or repr for estimator-valued parameters",
                     "classes listed in harness/tables/static_baseline.json store arguments through properties / validation and are only judged dynamically"],
        extra={"estimators": [e["name"] for e in entries]})


def replay(ctx, doc):
    sc = doc["scenario"]
    if "static_class" in sc:
        return run(ctx)
    entry = [e for e in all_entries() if e["name"] == sc["estimator"]][0]
    ev, tr = run_plan(entry, [tuple(p) for p in sc["plan"]], ctx.seed, 1)
    print(canon(ev)[:3000])
    rejects, _ = ctx.judge("TraceEstimator", "TraceEstimator.cfg", ev)
    if rejects:
        print("VIOLATION property=C04 replay=%s %s" % (ctx.replay, rejects))
        return 1
    print("replay accepted")
    return 0
