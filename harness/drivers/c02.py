"""C02 -- forecasting-horizon algebra. Spec: spec/Horizon.tla (+MCHorizon, TraceHorizon)."""
import numpy as np
import pandas as pd

from harness.core import canon
from harness import tlc as T

REJECT = (ValueError, TypeError, NotImplementedError)


def build_values(raw):
    """Turn the abstract raw input into the concrete Python object."""
    vals, kind, fault = list(raw["vals"]), raw["kind"], raw["fault"]
    if fault == "frac":
        v = [float(x) for x in vals]
        v[len(v) // 2] += 0.5
        return v if kind == "list" else np.array(v)
    if fault == "badtype":
        # (a string is a string: also one that spells a number)
        return {"str": "abc" if raw.get("npint", 0) == 0 else str(vals[0]), "float": float(vals[0]) + 0.5, "tuple": tuple(vals), "set": set(vals),
                "none": None, "strlist": [str(x) + "x" for x in vals],
                "period": pd.period_range("2000-01", periods=len(vals), freq="M"),
                "datetime": pd.date_range("2000-01-01", periods=len(vals), freq="D"),
                "dict": {x: x for x in vals}}[kind]
    if kind == "int":
        return int(vals[0]) if raw.get("npint", 0) == 0 else np.int64(vals[0])
    if kind == "list":
        return vals
    if kind == "array":
        return np.array(vals, dtype="int64")
    if kind == "index":
        return pd.Index(vals, dtype="int64")
    if kind == "range":
        d = vals[1] - vals[0] if len(vals) > 1 else 1
        # the stop of a range is any value between the last element (excluded) and the next grid point (included):
        # both ends of that interval are used, alternately
        R_CALLS[0] += 1
        stop = vals[-1] + d if R_CALLS[0] % 2 else vals[-1] + (1 if d > 0 else -1)
        return pd.RangeIndex(vals[0], stop, d)
    raise AssertionError(kind)


R_CALLS = [0]


def L(idx):
    return [int(x) for x in list(idx)]


def observe(raw, cut, start, alt=0):
    from sktime.forecasting.base import ForecastingHorizon
    from sktime.utils.validation.forecasting import check_fh
    try:
        values = build_values(dict(raw, npint=alt % 2))
    except Exception as e:  # cannot even build the input: machinery problem
        raise
    try:
        if raw["rel"] and alt % 3 == 2:
            fh = check_fh(values)      # the validation entry point users' raw horizons go through
        else:
            fh = ForecastingHorizon(values, is_relative=bool(raw["rel"]))
    except REJECT:
        return {"rej": True}
    except Exception as e:
        return {"rej": False, "crash": type(e).__name__}
    try:
        # alternate python int / numpy int cutoffs on the same object (lru_cache typed=True)
        c1 = int(cut) if alt % 2 == 0 else np.int64(cut)
        c2 = np.int64(cut) if alt % 2 == 0 else int(cut)
        o = {"rej": False}
        o["vals"] = L(fh.to_pandas())
        o["rel"] = bool(fh.is_relative)
        o["abs"] = L(fh.to_absolute(c1).to_pandas())
        o["relv"] = L(fh.to_relative(c2).to_pandas())
        if fh.is_relative:
            o["rt"] = L(fh.to_absolute(c2).to_relative(c1).to_pandas())
        else:
            o["rt"] = L(fh.to_relative(c1).to_absolute(c2).to_pandas())
        ins, oos = fh.to_in_sample(c1), fh.to_out_of_sample(c2)
        o["ins"], o["oos"] = L(ins.to_pandas()), L(oos.to_pandas())
        o["insrel"], o["oosrel"] = bool(ins.is_relative), bool(oos.is_relative)
        o["allin"] = bool(fh.is_all_in_sample(c1))
        o["allout"] = bool(fh.is_all_out_of_sample(c2))
        o["idx"] = L(fh.to_indexer(c1))
        if fh.is_relative and L(fh.to_indexer()) != o["idx"]:
            o["idx"] = o["idx"] + [-999999]       # a relative horizon needs no cutoff; same steps - 1
        i0 = fh.to_indexer(c2, from_cutoff=False)
        o["idx0"] = L(i0.to_pandas() if hasattr(i0, "to_pandas") else i0)
        o["absint"] = L(fh.to_absolute_int(int(start), c2).to_pandas())
        # a second look with the other cutoff type must agree (cache keyed by type)
        if L(fh.to_absolute(c2).to_pandas()) != o["abs"] or L(fh.to_indexer(c2)) != o["idx"]:
            o["abs"] = o["abs"] + [-999999]
        # the same object asked again with ANOTHER cutoff answers like a fresh horizon (nothing cutoff-specific is kept)
        fresh = ForecastingHorizon(values, is_relative=bool(raw["rel"]))
        for c3 in (int(cut) + 2, int(cut)):
            a = (L(fh.to_in_sample(c3).to_pandas()), L(fh.to_out_of_sample(c3).to_pandas()), bool(fh.is_all_in_sample(c3)),
                 bool(fh.is_all_out_of_sample(c3)), L(fh.to_absolute(c3).to_pandas()), L(fh.to_relative(c3).to_pandas()),
                 L(fh.to_indexer(c3)))
            b = (L(fresh.to_in_sample(c3).to_pandas()), L(fresh.to_out_of_sample(c3).to_pandas()), bool(fresh.is_all_in_sample(c3)),
                 bool(fresh.is_all_out_of_sample(c3)), L(fresh.to_absolute(c3).to_pandas()), L(fresh.to_relative(c3).to_pandas()),
                 L(fresh.to_indexer(c3)))
            fresh = ForecastingHorizon(values, is_relative=bool(raw["rel"]))
            if a != b:
                o["ins"] = o["ins"] + [-999999]
        # check_fh: same object passes through, empty horizon is rejected there
        if check_fh(fh) is not fh and L(check_fh(fh).to_pandas()) != o["vals"]:
            o["vals"] = o["vals"] + [-999999]
        try:
            check_fh(ForecastingHorizon(np.array([], dtype="int64")))
            o["emptyrej"] = False
        except REJECT:
            o["emptyrej"] = True
        return o
    except Exception as e:
        return {"rej": False, "crash": type(e).__name__ + ":" + str(e)[:80]}


def random_case(rng):
    n = rng.randint(1, 12)
    span = rng.choice([10, 1000, 10 ** 6])
    vals = rng.sample(range(-span, span + 1), n)
    fault = "none"
    r = rng.random()
    kind = rng.choice(["list", "array", "index"])
    if n == 1 and rng.random() < 0.3:
        kind = "int"
    if r < 0.12 and n < 12:
        vals.append(rng.choice(vals))
        rng.shuffle(vals)
        fault = "dup"
        if kind == "int":
            kind = "list"
    elif r < 0.2:
        fault, kind = "frac", rng.choice(["list", "array"])
    elif r < 0.3 and n >= 2:
        lo, d = rng.randint(-span, span), rng.choice([1, 1, -1, 2, -3])
        vals, kind = [lo + d * i for i in range(n)], "range"
    raw = {"kind": kind, "vals": vals, "rel": rng.random() < 0.5, "fault": fault}
    cut = rng.randint(-span, span)
    return raw, cut, cut - rng.randint(0, 50)


def run(ctx):
    tier = ctx.tier
    ctx.model_check("MCHorizon", "MCHorizon.%s.cfg" % tier,
                    need_actions=("AddStep", "Finish", "Duplicate", "Fraction", "BadType"))
    r = T.must(T.run("MCHorizon", "MCHorizon.%s.emit.cfg" % tier, ctx.work, workers=16), "emit")
    if not r.printed:
        raise T.TLCError("no vectors emitted")
    ctx.notes.append("vectors emitted by TLC: %d" % len(r.printed))
    for i, v in enumerate(r.printed):
        obs = observe(v["raw"], v["cut"], v["start"], alt=i)
        ctx.evaluations += 1
        if obs != v["exp"]:
            ctx.violation({"raw": v["raw"], "cut": v["cut"], "start": v["start"], "alt": i % 2},
                          "spec->code: expected %s observed %s" % (canon(v["exp"])[:300], canon(obs)[:300]))
        if not v["exp"]["rej"] and len(v["raw"]["vals"]) > 1:
            ctx.nontriv(v["raw"])
        if i % 3000 == 0:
            ctx.sample({"raw": v["raw"], "cut": v["cut"], "expected": v["exp"]})
    nrand = 4000 if ctx.quick else 50000
    recs = []
    for t in range(nrand):
        raw, cut, start = random_case(ctx.rng)
        obs = observe(raw, cut, start, alt=t)
        ctx.evaluations += 1
        if "crash" in obs:
            ctx.violation({"raw": raw, "cut": cut, "start": start, "alt": t % 2}, "crash " + obs["crash"])
            continue
        recs.append({"tid": t, "raw": raw, "cut": cut, "start": start, "obs": obs})
        if not obs["rej"]:
            ctx.nontriv(raw)
    rejects, _ = ctx.judge("TraceHorizon", "TraceHorizon.cfg", recs)
    ctx.traces += len(recs) - len(rejects)
    for rec in recs:
        if rec["tid"] in rejects:
            ctx.violation({"raw": rec["raw"], "cut": rec["cut"], "start": rec["start"], "alt": rec["tid"] % 2},
                          "code->spec: TLC rejects, clause %s; observed %s"
                          % (rejects[rec["tid"]], canon(rec["obs"])[:300]))
    return ctx.finish(
        rule="TLC enumerates every ordered duplicate-free selection of steps (and every injected "
             "fault) within the cfg constants x form x cutoff and emits the expected observation; each "
             "is replayed on the real ForecastingHorizon (int/np.int64 cutoffs alternated) and compared "
             "for equality; random horizons with |step| up to 1e6 are validated by TraceHorizon.tla. "
             "Non-trivial = accepted horizon with more than one step (bounded) / accepted (random).",
        assumptions=["compat shim: pd.Int64Index emulated by pd.Index (non-integer plain Index never generated)",
                     "exhaustive only within MCHorizon.%s.cfg" % tier])


def replay(ctx, doc):
    sc = doc["scenario"]
    obs = observe(sc["raw"], sc["cut"], sc["start"], alt=sc.get("alt", 0))
    print("observed:", canon(obs))
    if "crash" in obs:
        print("VIOLATION property=C02 replay=%s" % ctx.replay)
        return 1
    rejects, _ = ctx.judge("TraceHorizon", "TraceHorizon.cfg",
                           [{"tid": 0, "raw": sc["raw"], "cut": sc["cut"], "start": sc["start"], "obs": obs}])
    if rejects:
        print("VIOLATION property=C02 replay=%s" % ctx.replay)
        return 1
    print("replay accepted")
    return 0
