"""C13 -- series transformers: invertible, index-preserving, aligned in time. Spec: spec/SeriesTransf.tla."""
import warnings

import numpy as np
import pandas as pd

from harness import estimators as E
from harness import tlc as T
from harness.core import canon

AMP = {2: [4.0, -4.0], 3: [5.0, -1.0, -4.0], 4: [6.0, -2.0, 1.0, -5.0]}


def values(times, sp, entry, seed):
    t = np.asarray(times, dtype=float)
    amp = np.array(AMP[sp])
    v = 60.0 + 0.7 * t + amp[(np.asarray(times) % sp)] + 0.3 * np.sin(1.7 * t + seed)
    if entry.get("missing"):
        v = v.copy()
        for k in range(len(v)):
            if (times[k] * 7 + 3) % 11 == 0 and 0 < k < len(v) - 1:
                v[k] = np.nan
    return v


BASE_DAY = pd.Timestamp("2021-03-01")
BASE_MONTH = pd.Period("2001-01", freq="M")


def make_index(lo, hi, kind):
    """Index kinds: 0 RangeIndex, 1 integer Index, 2 daily DatetimeIndex carrying its freq, 3 the same days assembled
    from individual time stamps (no freq attribute, as after reading a file), 4 monthly PeriodIndex."""
    if kind == 0:
        return pd.RangeIndex(lo, hi + 1)
    if kind == 1:
        return pd.Index(np.arange(lo, hi + 1))
    if kind == 2:
        return pd.date_range(BASE_DAY + pd.Timedelta(days=lo), periods=hi - lo + 1, freq="D")
    if kind == 3:
        idx = pd.DatetimeIndex([pd.Timestamp(str((BASE_DAY + pd.Timedelta(days=k)).date())) for k in range(lo, hi + 1)])
        assert idx.freq is None
        return idx
    return pd.period_range(BASE_MONTH + lo, periods=hi - lo + 1, freq="M")


def pos(label):
    """Integer time position of an index label of any kind of make_index."""
    if isinstance(label, pd.Timestamp):
        return int((label - BASE_DAY).days)
    if isinstance(label, pd.Period):
        return int((label - BASE_MONTH).n)
    return int(label)


def index_kind(seed, kind):
    # calendar indices only where the transformer's arithmetic depends on the time unit (the deseasonalizers align
    # the seasonal pattern by the distance from the training start measured in the index's unit).  Transformers that
    # go through a forecaster (detrenders, forecaster-based imputation) do horizon arithmetic that reads the freq of
    # a pd.Timestamp cutoff, which pandas >= 2 no longer has: calendar indexes cannot run there in this sandbox.
    return seed % 5 if kind in ("deseason_add", "deseason_mul", "cond_deseason") else seed % 2


def ser(lo, hi, sp, entry, seed, origin, kind):
    times = list(range(lo, hi + 1))
    idx = make_index(lo + origin, hi + origin, kind)
    v = values(times, sp, entry, seed)
    if entry.get("frame"):      # multivariate input (two columns)
        return pd.DataFrame({"a": v, "b": 100.0 - 0.5 * v + np.cos(np.asarray(times, dtype=float))}, index=idx)
    return pd.Series(v, index=idx)


def close(a, b):
    a, b = np.asarray(a, dtype=float), np.asarray(b, dtype=float)
    return a.shape == b.shape and bool(np.all((np.isnan(a) & np.isnan(b)) | (np.abs(a - b) <= 1e-7 * np.maximum(1, np.abs(b)))))


def execute(entry, cfg, origin, seed, idxkind):
    est = entry["factory"]()
    n, sp = cfg["n"], cfg["sp"]
    zkind = idxkind
    if idxkind == 3:
        # the library takes the time unit from the index it was fitted / updated on, so that index must carry its
        # freq (a DatetimeIndex without one is not a supported training index in 0.6.0: the horizon arithmetic
        # needs it as well); only the stretch handed to transform / inverse_transform comes without
        idxkind = 2
    train = ser(0, n - 1, sp, entry, seed, origin, idxkind)
    if seed % 4 == 2:
        # the same object was fitted before, on a stretch that starts one time point later: nothing of it may survive
        est.fit(ser(1, n + 2, sp, entry, seed + 9, origin, idxkind))
    est.fit(train)
    hi = n - 1
    if hasattr(est, "update"):
        for b in cfg["ups"]:
            # parameter updating off: Detrender.update's default would refit its forecaster, which needs a
            # stored horizon (the missing-horizon-on-refit case is outside C13, see DESIGN 7)
            # (the deseasonalizers have nothing to refit: both settings are exercised)
            up = bool(seed % 3 == 1 and cfg["kind"] != "other")
            shape = (seed // 2) % 4 if not up else 0
            if shape == 2 and hi - b - 1 >= 2:
                # a batch of observations seen before (revised readings) that ends before the last point seen so far
                est.update(ser(hi - b - 1, hi - 2, sp, entry, seed, origin, idxkind), update_params=False)
                continue
            if shape == 3:
                # a later stretch that leaves a gap of two time points after the data seen so far
                hi += 2
            est.update(ser(hi + 1, hi + b, sp, entry, seed, origin, idxkind), update_params=up)
            hi += b
    z = ser(cfg["lo"], cfg["lo"] + cfg["len"] - 1, sp, entry, seed, origin, zkind)
    z0 = z.copy()
    out = est.transform(z)
    res = {"est": est, "z": z0, "out": out, "train": train}
    if entry["inverse"]:
        res["back"] = est.inverse_transform(out)
    return res


def decode_phases(est, zin, zout, train):
    """Which entry of the seasonal pattern was removed at each time point.  The pattern is not read from the
    transformer: it is the classical decomposition of the training series (statsmodels), first period."""
    from statsmodels.tsa.seasonal import seasonal_decompose
    if hasattr(est, "passthrough"):       # optional passthrough around a deseasonalizer: the configured one
        est = est.transformer
    mult = getattr(est, "model", "additive") == "multiplicative"
    s = np.asarray(seasonal_decompose(np.asarray(train.values, dtype=float), model="multiplicative" if mult else "additive",
                                      period=int(est.sp)).seasonal[:int(est.sp)], dtype=float)
    d = (np.asarray(zin) / np.asarray(zout)) if mult else (np.asarray(zin) - np.asarray(zout))
    out = []
    for v in d:
        j = int(np.argmin(np.abs(s - v)))
        out.append(j if abs(s[j] - v) <= 1e-7 * max(1, abs(v)) else -1)
    return out


def observe(entry, cfg, seed):
    warnings.filterwarnings("ignore")
    origin = cfg["origin"]
    try:
        ik = index_kind(seed, cfg["kind"])
        r = execute(entry, cfg, origin, seed, ik)
        o = {"index": [pos(i) - origin for i in r["out"].index] if entry["same_index"] else [],
             "phases": [], "inv_phases": [], "rt": [], "rt_index": True}
        deseason = cfg["kind"] in ("deseason_add", "deseason_mul", "cond_deseason")
        if deseason:
            o["phases"] = decode_phases(r["est"], r["z"].values, r["out"].values, r["train"])
            o["inv_phases"] = decode_phases(r["est"], r["back"].values, r["out"].values, r["train"])
        if entry["inverse"]:
            zb, z = r["back"], r["z"]
            A, B, C = (np.asarray(x.values, dtype=float).reshape(len(x), -1) for x in (zb, z, r["out"]))
            o["rt"] = [bool(np.all((np.abs(A[i] - B[i]) <= 1e-7 * np.maximum(1, np.abs(B[i]))) | ~np.isfinite(C[i])))
                       for i in range(len(B))] if A.shape == B.shape else [False] * len(B)
            o["rt_index"] = bool(list(zb.index) == list(z.index)) and len(zb) == len(z)
        train = ser(0, cfg["n"] - 1, cfg["sp"], entry, seed, origin, 2 if ik == 3 else ik)
        first = entry["factory"]()
        if seed % 2 == 0:      # the object has been through fit_transform before, on another stretch
            first.fit_transform(ser(1, cfg["n"] + 2, cfg["sp"], entry, seed + 9, origin, 2 if ik == 3 else ik))
        a = first.fit_transform(train.copy())
        b = entry["factory"]().fit(train.copy()).transform(train.copy())
        o["fteq"] = bool(list(a.index) == list(b.index) and close(a.values, b.values))
        r2 = execute(entry, cfg, origin + 7, seed, ik)
        sh = 7 if entry["same_index"] else 0     # outputs not indexed by time (lags) keep their index
        o["shift"] = bool([pos(i) - sh for i in r2["out"].index] == [pos(i) for i in r["out"].index]
                          and close(r2["out"].values, r["out"].values))
        o["noupd"] = True
        if cfg["ups"] and not (seed % 3 == 1 and cfg["kind"] != "other"):
            r0 = execute(entry, dict(cfg, ups=[]), origin, seed, ik)
            o["noupd"] = bool(list(r0["out"].index) == list(r["out"].index) and close(r0["out"].values, r["out"].values))
        return o
    except Exception as e:
        import traceback
        return {"crash": type(e).__name__ + ": " + str(e)[:140] + " @ " + traceback.format_exc().splitlines()[-3].strip()[:100]}


def first_high(y, sp=None):
    return bool(np.asarray(y, dtype=float)[0] > 62.0)


def first_low(y, sp=None):
    return bool(np.asarray(y, dtype=float)[0] < 62.0)


def all_entries():
    """The registry's series transformers plus two conditional deseasonalizers whose seasonality test depends on the
    data: the driver's series start near 66 at time 0 and near 59 at time 1, so the training series (from time 0) and
    the stretch an object was fitted on before (from time 1) get opposite verdicts -- the decision must be the
    current fit's."""
    from sktime.transformations.series.detrend import ConditionalDeseasonalizer
    L = list(E.series_transformers())
    base = dict(kind="series-transformer", methods=["transform", "inverse_transform"], inverse=True, positive=False,
                same_index=True, missing=False, update=True, frame=False)
    L.append(dict(base, name="cond_deseason_first_high",
                  factory=lambda: ConditionalDeseasonalizer(sp=4, seasonality_test=first_high)))
    L.append(dict(base, name="cond_deseason_first_low",
                  factory=lambda: ConditionalDeseasonalizer(sp=4, seasonality_test=first_low)))
    return L


KIND = {"cond_deseason_first_high": "cond_deseason", "deseason_add": "deseason_add", "deseason_mul": "deseason_mul", "cond_deseason": "cond_deseason",
        "optpass_deseason_reconfigured": "deseason_add"}


def run(ctx):
    ctx.model_check("MCSeriesTransf", "MCSeriesTransf.%s.cfg" % ctx.tier, coverage=False)
    r = T.must(T.run("MCSeriesTransf", "MCSeriesTransf.%s.emit.cfg" % ctx.tier, ctx.work, workers=8), "emit")
    scen = [v["cfg"] for v in r.printed]
    if not scen:
        raise T.TLCError("no scenarios")
    ctx.notes.append("scenarios emitted by TLC: %d" % len(scen))
    ctx.exhaustive = False
    entries = all_entries()
    recs = []
    for ei, entry in enumerate(entries):
        kind = KIND.get(entry["name"], "other")
        per = (150 if kind != "other" else 40) if ctx.quick else (1500 if kind != "other" else 400)
        chosen = ctx.rng.sample(scen, min(per, len(scen)))
        for si, c in enumerate(chosen):
            cfg = dict(c, kind=kind, same_index=bool(entry["same_index"]), inverse=bool(entry["inverse"]))
            if entry["name"] in ("hampel", "acf", "pacf"):
                cfg["len"] = max(cfg["len"], 10)      # these need a minimum number of observations
            if kind == "deseason_add" or kind == "cond_deseason":
                cfg["sp"] = 4
            elif kind == "deseason_mul":
                cfg["sp"] = 3
            seed = ctx.seed + ei * 1000 + si
            obs = observe(entry, cfg, seed)
            ctx.evaluations += 1
            sc = {"estimator": entry["name"], "cfg": cfg, "seed": seed}
            if "crash" in obs:
                ctx.violation(sc, "crash on valid input: " + obs["crash"])
                continue
            recs.append({"tid": len(recs), "cfg": cfg, "obs": obs, "sc": sc})
            if cfg["ups"] or cfg["lo"] % cfg["sp"]:
                ctx.nontriv(sc)
            if si == 0 and ei % 6 == 0:
                ctx.sample({"scenario": sc, "observed": obs})
    rejects, _ = ctx.judge("TraceSeriesTransf", "TraceSeriesTransf.cfg",
                           [{k: x[k] for k in ("tid", "cfg", "obs")} for x in recs])
    ctx.traces += len(recs) - len(rejects)
    for rec in recs:
        if rec["tid"] in rejects:
            ctx.violation(rec["sc"], "TLC rejects %s: clause %s; observed %s"
                          % (rec["sc"]["estimator"], rejects[rec["tid"]], canon(rec["obs"])[:300]))
    return ctx.finish(
        rule="TLC enumerates scenarios (training length, period, 0-2 update batches of length 1-5, transformed "
             "stretch starting 0..12 after the training start, index origin; for the deseasonalizers also a daily DatetimeIndex with / without freq and a monthly PeriodIndex, and seasonality tests that depend on the data) and proves the expected seasonal "
             "phase is periodic and anchored at the training start; every series transformer of the registry "
             "runs a seeded sample: output index, the entry of the training series' seasonal pattern actually removed / restored at each time "
             "point (decoded against an independent classical decomposition), position-wise round trip, fit_transform vs "
             "fit+transform and a shifted-index twin run are validated by TraceSeriesTransf.tla. Non-trivial = "
             "scenario with updates or a stretch not starting on a period boundary.",
        assumptions=["compat shim", "the seasonal pattern used for decoding is statsmodels' classical decomposition of the training series (first period), not the transformer's own attribute",
                     "round trip compared with 1e-7 relative tolerance wherever transform is finite"])


def replay(ctx, doc):
    sc = doc["scenario"]
    entry = [e for e in all_entries() if e["name"] == sc["estimator"]][0]
    obs = observe(entry, sc["cfg"], sc["seed"])
    print("observed:", canon(obs)[:1500])
    if "crash" in obs:
        print("VIOLATION property=C13 replay=%s" % ctx.replay)
        return 1
    rejects, _ = ctx.judge("TraceSeriesTransf", "TraceSeriesTransf.cfg", [{"tid": 0, "cfg": sc["cfg"], "obs": obs}])
    if rejects:
        print("VIOLATION property=C13 replay=%s %s" % (ctx.replay, rejects))
        return 1
    print("replay accepted")
    return 0
