"""C10 -- updating is equivalent to having observed, for every history.
Spec: spec/Forecaster.tla (history part), MCForecaster.tla, TraceForecaster.tla."""
from harness.drivers import c03, _life


def run(ctx):
    return c03.run(ctx, pid="C10", check=_life.check_c10, with_up=True)


def replay(ctx, doc):
    return c03.replay(ctx, doc, check=_life.check_c10, with_up=True)
