"""C19 -- benchmark runs are exactly-once, resumable and store what was predicted. Spec: spec/Benchmark.tla."""
import hashlib
import os
import shutil
import warnings

import numpy as np
import pandas as pd

from harness import tlc as T
from harness.core import canon

ND, NS = 2, 2
NFOLDS = {"n": 2, "presplit": False, "features": None, "single": False, "uea": False, "cols": ["dim_0", "aux"]}
N_TRAIN_UEA = 5
N_INST = 8


def n_of(d):
    """Datasets of different sizes: 8, 10, ... instances."""
    return N_INST + 2 * (d - 1)
CALLS = {"n": 0, "crash": 0, "log": []}


class Boom(RuntimeError):
    pass


from sktime.classification.base import BaseClassifier  # noqa: E402  (compat layer is loaded by harness.core first)


class SigClassifier(BaseClassifier):
    """Deterministic stub: its predictions encode the training set it saw (sum of training instance ids),
    the strategy number and the instance predicted, so a stored record can be checked for honesty. The
    k-th fit / predict call of a run raises on demand.  Module-level so that fitted strategies pickle."""

    def __init__(self, sid=1):
        self.sid = sid
        super(SigClassifier, self).__init__()

    def _tick(self, what):
        CALLS["n"] += 1
        CALLS["log"].append(what)
        if CALLS["n"] == CALLS["crash"]:
            raise Boom("injected failure at call %d" % CALLS["n"])

    def fit(self, X, y):
        ids = [int(round(X["dim_0"].iloc[i].iloc[0])) for i in range(len(X))]
        self.cols_ = list(X.columns)
        self._tick(("fit", self.sid, tuple(ids)))
        # an object that is fitted again (instead of a fresh clone per fold) betrays itself in its predictions
        self.nfit_ = getattr(self, "nfit_", 0) + 1
        # ... and so does one that is not given exactly the feature columns (all columns but the target)
        self.sig_ = sum(ids) + (self.nfit_ - 1) + (0 if list(X.columns) == (NFOLDS["features"] or NFOLDS["cols"]) else 1)
        self.classes_ = np.unique(y)
        self._is_fitted = True
        return self

    def predict(self, X):
        ids = [int(round(X["dim_0"].iloc[i].iloc[0])) for i in range(len(X))]
        self._tick(("predict", self.sid, tuple(ids)))
        # the feature columns of the task, in the task's order, at fit and at predict alike
        bad = 0 if list(X.columns) == (NFOLDS["features"] or NFOLDS["cols"]) == self.cols_ else 1
        return np.array([(self.sig_ * 7 + self.sid * 3 + i + bad) % 5 for i in ids])


def make_classifier():
    return SigClassifier


from sktime.regression.base import BaseRegressor  # noqa: E402


class SigRegressor(BaseRegressor):
    """Regression twin of SigClassifier: real-valued predictions (never whole numbers) that encode the training
    set and the instance predicted."""

    def __init__(self, sid=1):
        self.sid = sid
        super(SigRegressor, self).__init__()

    def fit(self, X, y):
        self.sig_ = sum(int(round(X["dim_0"].iloc[i].iloc[0])) for i in range(len(X)))
        self._is_fitted = True
        return self

    def predict(self, X):
        ids = [int(round(X["dim_0"].iloc[i].iloc[0])) for i in range(len(X))]
        return np.array([((self.sig_ * 7 + self.sid * 3 + i) % 5) + 0.375 for i in ids])


def dataset(d):
    """Instance ids 100*d + i are the (constant) values of the series, so records are self-describing."""
    n = n_of(d)
    ids = [100 * d + i for i in range(n)]
    # the target is not the last column, the columns are not in alphabetical order and the row labels are not 0..n-1:
    # records identify instances by fold position
    return pd.DataFrame({"dim_0": [pd.Series([float(i)] * 4) for i in ids], "class_val": [i % 2 for i in ids],
                         "aux": [pd.Series([1.0, 2.0]) for _ in ids]},
                        index=(["test" if i % 3 == 1 else "train" for i in range(n)] if NFOLDS["presplit"]
                               else [50 + 3 * ((i * 7) % n) for i in range(n)]))


def honest(d, s, train_pos, pos):
    ids = [100 * d + i for i in range(n_of(d))]
    sig = sum(ids[p] for p in train_pos)
    return [(sig * 7 + s * 3 + ids[p]) % 5 for p in pos]


def make_cv():
    from sklearn.model_selection import KFold, ShuffleSplit
    if NFOLDS["presplit"] or NFOLDS["uea"]:       # pre-split data: rows labelled 'train' / 'test', one fold
        from sktime.series_as_features.model_selection import PresplitFilesCV
        return PresplitFilesCV()
    if NFOLDS["single"]:         # the library's own single-split helper, seeded: the same split for every strategy and run
        from sktime.series_as_features.model_selection import SingleSplit
        return SingleSplit(test_size=0.5, random_state=3)
    if NFOLDS["n"] == 1:
        return ShuffleSplit(n_splits=1, test_size=0.5, random_state=0)     # a single split
    return KFold(n_splits=NFOLDS["n"])


def folds(d=1):
    n = n_of(d)
    if NFOLDS["uea"]:            # the rows of the TRAIN file, then those of the TEST file
        return [(list(range(N_TRAIN_UEA)), list(range(N_TRAIN_UEA, n)))]
    if NFOLDS["presplit"]:       # by definition, not by asking the splitter
        return [([i for i in range(n) if i % 3 != 1], [i for i in range(n) if i % 3 == 1])]
    if NFOLDS["single"]:         # by definition: scikit-learn's seeded split of the row positions
        from sklearn.model_selection import train_test_split
        a, b = train_test_split(np.arange(n), test_size=0.5, random_state=3, shuffle=True)
        return [(list(a), list(b))]
    return [(list(a), list(b)) for a, b in make_cv().split(np.arange(n))]


def do_run(path, o, crash):
    from sktime.benchmarking.orchestration import Orchestrator
    from sktime.benchmarking.results import HDDResults
    from sktime.benchmarking.strategies import TSCStrategy
    from sktime.benchmarking.tasks import TSCTask
    from sktime.benchmarking.data import RAMDataset
    import logging
    logging.disable(logging.CRITICAL)        # the orchestrator reports every skipped key on the console
    Clf = make_classifier()
    CALLS.update(n=0, crash=crash, log=[])
    if NFOLDS["uea"]:
        # pre-split .ts files on disk, read through UEADataset with a target name of the user's choice
        from sktime.benchmarking.data import UEADataset
        root = path + "_data"
        for d in range(1, ND + 1):
            os.makedirs(os.path.join(root, "d%d" % d), exist_ok=True)
            ids = [100 * d + i for i in range(n_of(d))]
            for suffix, part in (("_TRAIN", ids[:N_TRAIN_UEA]), ("_TEST", ids[N_TRAIN_UEA:])):
                with open(os.path.join(root, "d%d" % d, "d%d%s.ts" % (d, suffix)), "w") as f:
                    f.write("@problemName d%d\n@timeStamps false\n@univariate true\n@classLabel true 0 1\n@data\n" % d)
                    for i in part:
                        f.write(",".join([repr(float(i))] * 4) + ":%d\n" % (i % 2))
        datasets = [UEADataset(path=root, name="d%d" % d, target_name="label") for d in range(1, ND + 1)]
        tasks = [TSCTask(target="label") for _ in datasets]
    else:
        datasets = [RAMDataset(dataset(d), name="d%d" % d) for d in range(1, ND + 1)]
        tasks = [TSCTask(target="class_val", features=NFOLDS["features"]) for _ in datasets]
    strategies = [TSCStrategy(Clf(sid=s), name="s%d" % s) for s in range(1, int(o.get("ns", NS)) + 1)]
    res = HDDResults(path=path)
    orch = Orchestrator(tasks=tasks, datasets=datasets, strategies=strategies, cv=make_cv(), results=res)
    crashed = False
    try:
        orch.fit_predict(overwrite_predictions=o["owp"], predict_on_train=o["pot"], save_fitted_strategies=o["sf"],
                         overwrite_fitted_strategies=o["owf"])
    except Boom:
        crashed = True
    return crashed, list(CALLS["log"])


def snapshot(path, run_no, prev):
    """What a fresh process sees: files (with content hashes), persisted registry, what load_predictions yields."""
    from sktime.benchmarking.results import HDDResults
    from joblib import load
    files = {}
    for root, _, fs in os.walk(path):
        for f in fs:
            p = os.path.join(root, f)
            if f.endswith(".csv"):
                # timing columns differ from run to run: hash the record proper
                df = pd.read_csv(p)
                h = hashlib.sha256(df[["index", "y_true", "y_pred"]].to_csv(index=False).encode()).hexdigest()[:12]
                files[os.path.relpath(p, path)] = (h, os.stat(p).st_mtime_ns, df)
            elif f.endswith(".pickle") and f != "results.pickle":
                files[os.path.relpath(p, path)] = ("fitted", os.stat(p).st_mtime_ns, None)
    S, D = [], []
    mp = os.path.join(path, "results.pickle")
    if os.path.exists(mp):
        m = load(mp)
        S, D = sorted(m.strategy_names), sorted(m.dataset_names)
    return {"files": files, "S": S, "D": D}


def key_of(rel):
    parts = rel.split(os.sep)          # s1/d1/s1_test_0.csv
    s, d = int(parts[0][1:]), int(parts[1][1:])
    name = parts[2].rsplit(".", 1)[0].split("_")
    return d, s, int(name[-1]) + 1, name[-2]


def observe(runs, workdir, tid):
    """Replay a run sequence on the real orchestrator; return per-run observed snapshots in the spec's shape."""
    warnings.filterwarnings("ignore")
    path = os.path.join(workdir, "store%d" % tid)
    shutil.rmtree(path, ignore_errors=True)
    os.makedirs(path)
    writer = {}       # rel file -> run number that (last) wrote it
    prev = {"files": {}}
    out = []
    fl = {d: folds(d) for d in range(1, ND + 1)}
    try:
        for rn, run in enumerate(runs, start=1):
            crashed, log = do_run(path, run["o"], run["crash"])
            snap = snapshot(path, rn, prev)
            dishonest = []
            for rel, (h, mt, df) in snap["files"].items():
                old = prev["files"].get(rel)
                if old is None or old[0] != h or old[1] != mt:
                    writer[rel] = rn            # created or rewritten in this run
                if df is not None:
                    d, s, f, part = key_of(rel)
                    tr, te = fl[d][f - 1]
                    pos = list(te if part == "test" else tr)
                    ids = [100 * d + i for i in range(n_of(d))]
                    ok = list(df["index"]) == pos and list(df["y_true"]) == [ids[p] % 2 for p in pos] and \
                        list(df["y_pred"]) == honest(d, s, list(tr), pos)
                    if not ok:
                        dishonest.append(rel)
            pred, fitted = [], []
            for rel in snap["files"]:
                d, s, f, part = key_of(rel)
                if rel.endswith(".csv"):
                    pred.append([d, s, f, part, writer[rel]])
                else:
                    fitted.append([d, s, f, writer[rel]])
            # interpret the call log: a fit names its key through its training ids (unique per fold); the
            # predict calls that follow belong to the same key, on its training or its test instances
            fits, preds, cur = [], [], None
            completed = log[:-1] if crashed else log        # the raising call did not complete
            for (what, sid, ids) in completed:
                d = ids[0] // 100
                if what == "fit":
                    trains = [tuple(100 * d + p for p in tr) for tr, _ in fl[d]]
                    if ids not in trains:
                        raise AssertionError("FoldOfItsOwnDataset: a strategy was fitted on instances %s of dataset %d, "
                                             "which are not the training instances of any of its folds %s" % (ids, d, trains))
                    f = 1 + trains.index(ids)
                    cur = (d, sid, f, ids)
                    fits.append((d, sid, f))
                else:
                    part = "train" if ids == cur[3] else "test"
                    preds.append([cur[0], cur[1], cur[2], part])
            fits = sorted(set(fits))
            # what a fresh results object lets a user read back
            visible_ok = True
            from sktime.benchmarking.results import HDDResults
            try:
                r2 = HDDResults(path=path)
                from joblib import load
                if os.path.exists(os.path.join(path, "results.pickle")):
                    m = load(os.path.join(path, "results.pickle"))
                    m.cv = None
                    for f in range(NFOLDS["n"]):
                        got = list(m.load_predictions(cv_fold=f, train_or_test="test"))
                        if len(got) != len(snap["S"]) * len(snap["D"]):
                            visible_ok = False
                        for pw in got:      # records read back equal what was stored
                            rel = os.path.join(pw.strategy_name, pw.dataset_name, "%s_test_%d.csv" % (pw.strategy_name, f))
                            df = snap["files"][rel][2]
                            if list(pw.index) != list(df["index"]) or list(pw.y_true) != list(df["y_true"]) or \
                                    list(pw.y_pred) != list(df["y_pred"]):
                                visible_ok = False
            except Exception:
                visible_ok = False
            out.append({"pred": sorted(pred), "fitted": sorted(fitted), "S": [int(x[1:]) for x in snap["S"]],
                        "D": [int(x[1:]) for x in snap["D"]], "fits": [list(k) for k in fits],
                        "preds": sorted(preds), "calls": len(log), "crashed": crashed,
                        "dishonest": dishonest, "readable": visible_ok})
            prev = snap
        return out
    except Exception as e:
        import traceback
        return {"crash": type(e).__name__ + ": " + str(e)[:140] + " @ " + traceback.format_exc().splitlines()[-3].strip()[:100]}
    finally:
        shutil.rmtree(path, ignore_errors=True)
        shutil.rmtree(path + "_data", ignore_errors=True)


def ram_stores_independent():
    """Two in-memory result stores of one process, filled by two benchmarks that use the same strategy and dataset names
    (the same benchmark under two cross-validation schemes): what the first store returns is what its own run stored."""
    from sktime.benchmarking.orchestration import Orchestrator
    from sktime.benchmarking.results import RAMResults
    from sktime.benchmarking.strategies import TSCStrategy
    from sktime.benchmarking.tasks import TSCTask
    from sktime.benchmarking.data import RAMDataset
    from sklearn.model_selection import KFold
    import logging
    logging.disable(logging.CRITICAL)
    saved = dict(NFOLDS)
    NFOLDS.update(n=2, presplit=False, single=False, uea=False, features=None, cols=["dim_0", "aux"])
    CALLS.update(n=0, crash=0, log=[])
    try:
        def bench(cv, res=None):
            res = res if res is not None else RAMResults()
            Orchestrator(tasks=[TSCTask(target="class_val")], datasets=[RAMDataset(dataset(1), name="d1")],
                         strategies=[TSCStrategy(make_classifier()(sid=1), name="s1")], cv=cv, results=res).fit_predict(
                save_fitted_strategies=False)
            return res

        def read(res, nf):
            return [(pw.strategy_name, pw.dataset_name, f, list(pw.index), list(pw.y_true), list(pw.y_pred))
                    for f in range(nf) for pw in res.load_predictions(cv_fold=f, train_or_test="test")]
        first = bench(KFold(n_splits=2))
        before = read(first, 2)
        want = [("s1", "d1", f, list(te), [(100 + p) % 2 for p in te], honest(1, 1, list(tr), list(te)))
                for f, (tr, te) in enumerate(KFold(n_splits=2).split(np.arange(n_of(1))))]
        if before != want:
            return "the in-memory store returns %s for a 2-fold run, stored were %s" % (before, want)
        bench(KFold(n_splits=2, shuffle=True, random_state=1))
        after = read(first, 2)
        if after != before:
            return "the first store returned %s before, %s after another store was filled" % (before[:1], after[:1])
        # the same store used for a second run (other folds): an in-memory store recomputes, its records are the new run's
        cv2 = KFold(n_splits=2, shuffle=True, random_state=1)
        bench(cv2, first)
        again = read(first, 2)
        want2 = [("s1", "d1", f, list(te), [(100 + p) % 2 for p in te], honest(1, 1, list(tr), list(te)))
                 for f, (tr, te) in enumerate(cv2.split(np.arange(n_of(1))))]
        if again != want2:
            return "after a second run into the same in-memory store it returns %s, the second run stored %s" % (again[:1], want2[:1])
        # a regression benchmark on a whole-number target (counts): the stored predictions are the real numbers
        # the strategy predicted, in the in-memory store and on disk alike
        from sktime.benchmarking.strategies import TSRStrategy
        from sktime.benchmarking.tasks import TSRTask
        from sktime.benchmarking.results import HDDResults
        import tempfile
        import shutil
        tmp = tempfile.mkdtemp(prefix="c19_reg_")
        try:
            for store in (RAMResults(), HDDResults(path=tmp)):
                data = dataset(1)
                data["class_val"] = np.asarray([int(v) for v in data["class_val"]], dtype="int64") * 3 + 1
                cvr = KFold(n_splits=2)
                Orchestrator(tasks=[TSRTask(target="class_val")], datasets=[RAMDataset(data, name="d1")],
                             strategies=[TSRStrategy(SigRegressor(sid=1), name="r1")], cv=cvr, results=store).fit_predict(
                    save_fitted_strategies=False, predict_on_train=True)
                for which in ("test", "train"):
                    got = [(f, [int(i) for i in pw.index], [float(v) for v in pw.y_true], [float(v) for v in pw.y_pred])
                           for f in range(2) for pw in store.load_predictions(cv_fold=f, train_or_test=which)]
                    wantr = []
                    for f, (tr, te) in enumerate(cvr.split(np.arange(n_of(1)))):
                        part = te if which == "test" else tr
                        wantr.append((f, [int(i) for i in part], [float(((100 + q) % 2) * 3 + 1) for q in part],
                                      [float(v) + 0.375 for v in honest(1, 1, list(tr), list(part))]))
                    if got != wantr:
                        return "regression on a whole-number target, %s, %s records: returned %s, predicted were %s" % (
                            type(store).__name__, which, got[:1], wantr[:1])
        finally:
            shutil.rmtree(tmp, ignore_errors=True)
        return None
    finally:
        NFOLDS.clear()
        NFOLDS.update(saved)


def expected_of(run):
    s = run["snap"]
    return {"pred": sorted([list(x) for x in s["pred"]]), "fitted": sorted([list(x) for x in s["fitted"]]),
            "S": sorted(s["S"]), "D": sorted(s["D"]), "fits": sorted([list(x) for x in s["fits"]]),
            "preds": sorted([list(x) for x in s["preds"]]), "calls": s["calls"], "crashed": s["crashed"]}


def run(ctx):
    behs = []
    for nf, cfgname in ((2, "MCBenchmark.%s" % ctx.tier), (1, "MCBenchmark.single")):
        ctx.model_check("MCBenchmark", cfgname + ".cfg", coverage=False, timeout=1700)
        r = T.must(T.run("MCBenchmark", cfgname + ".emit.cfg", ctx.work, workers=8, timeout=1700), "emit")
        if not r.printed:
            raise T.TLCError("no behaviours")
        k = (120 if nf == 2 else 40) if ctx.quick else (1500 if nf == 2 else 400)
        chosen = r.printed if len(r.printed) <= k else ctx.rng.sample(r.printed, k)
        if len(chosen) < len(r.printed):
            ctx.exhaustive = False
        behs += [dict(b, nf=nf) for b in chosen]
        ctx.notes.append("run sequences emitted by TLC for %d fold(s): %d, replayed %d" % (nf, len(r.printed), len(chosen)))
    work = os.path.join(ctx.work, "stores")
    os.makedirs(work, exist_ok=True)
    kinds = set()
    events = []
    for i, b in enumerate(behs):
        runs = b["runs"]
        NFOLDS["n"] = b["nf"]
        NFOLDS["presplit"] = bool(b["nf"] == 1 and i % 4 == 1)
        NFOLDS["single"] = bool(b["nf"] == 1 and i % 4 == 3)
        NFOLDS["uea"] = bool(b["nf"] == 1 and i % 4 == 2)
        NFOLDS["cols"] = ["dim_0"] if NFOLDS["uea"] else ["dim_0", "aux"]
        NFOLDS["features"] = ["dim_0", "aux"][::-1] if (i % 3 == 2 and not NFOLDS["uea"]) else None   # explicit feature list in another order than the data's
        obs = observe(runs, work, i)
        ctx.evaluations += 1
        sc = {"runs": [{"o": x["o"], "crash": x["crash"]} for x in runs], "folds": b["nf"], "presplit": NFOLDS["presplit"],
              "features": NFOLDS["features"], "single": NFOLDS["single"], "uea": NFOLDS["uea"]}
        if isinstance(obs, dict):
            ctx.violation(sc, ("" if "FoldOfItsOwnDataset" in obs["crash"] else "machinery/crash: ") + obs["crash"])
            continue
        before = {"pred": [], "fitted": [], "S": [], "D": []}
        for rn, (run_, o) in enumerate(zip(runs, obs), start=1):
            if b["nf"] != 2:
                break       # the judge's constants are those of the 2-fold model; single-split runs are compared with TLC's snapshots
            events.append({"tid": i, "i": rn, "o": run_["o"], "crash": run_["crash"], "before": before, "sc": sc,
                           "obs": {"pred": o["pred"], "fitted": o["fitted"], "S": o["S"], "D": o["D"],
                                   "fits": sorted(o["fits"]), "preds": o["preds"], "calls": o["calls"],
                                   "crashed": o["crashed"], "honest": not o["dishonest"], "readable": bool(o["readable"])}})
            before = {"pred": o["pred"], "fitted": o["fitted"], "S": o["S"], "D": o["D"]}
        for run_ in runs:
            kinds.add((run_["crash"] > 0, run_["o"]["owp"]))
        for rn, (run_, o) in enumerate(zip(runs, obs), start=1):
            exp = expected_of(run_)
            got = {k_: o[k_] for k_ in exp}
            got["fits"] = sorted(got["fits"])
            if o["dishonest"]:
                ctx.violation(sc, "RecordIsHonest: run %d stored records that do not equal a clone fitted on the fold's "
                                  "training instances: %s" % (rn, o["dishonest"][:3]))
                break
            if got != exp:
                diff = next(k_ for k_ in exp if got[k_] != exp[k_])
                ctx.violation(sc, "spec->code: after run %d (%s, crash at call %d) %s differs: expected %s observed %s"
                              % (rn, {k_: v for k_, v in run_["o"].items() if v}, run_["crash"], diff,
                                 canon(exp[diff])[:250], canon(got[diff])[:250]))
                break
            if not o["crashed"] and not o["readable"]:
                ctx.violation(sc, "ReadBackEqualsStored: after run %d load_predictions does not yield one record per "
                                  "registered strategy and dataset" % rn)
                break
        if any(x["crash"] for x in runs):
            ctx.nontriv(sc)
        if i % 40 == 0:
            ctx.sample({"runs": sc["runs"], "expected_after_last_run": expected_of(runs[-1])})
    if len(kinds) < 3:
        raise T.TLCError("vacuity: run kinds %s" % kinds)
    ctx.evaluations += 1
    sc = {"ram_stores": True}
    try:
        msg = ram_stores_independent()
        if msg:
            ctx.violation(sc, "ReadBackEqualsStored: " + msg)
        else:
            ctx.nontriv(sc)
    except Exception as e:
        ctx.violation(sc, "crash: %s %s" % (type(e).__name__, str(e)[:160]))
    # code -> spec: every recorded run, judged by TLC from the store observed before it
    rejects, _ = ctx.judge("TraceBenchmark", "TraceBenchmark.cfg", [{k_: e[k_] for k_ in e if k_ != "sc"} for e in events])
    ntr = len({e["tid"] for e in events})
    ctx.traces += ntr - len(rejects)
    for t, clauses in rejects.items():
        sc = next(e["sc"] for e in events if e["tid"] == t)
        ctx.violation(sc, "code->spec: TLC rejects the recorded run sequence: %s" % clauses)
    shutil.rmtree(work, ignore_errors=True)
    return ctx.finish(
        rule="TLC checks exactly-once, no-recompute, completed-untouched, exactly-missing-produced, final = "
             "uninterrupted (files and persisted registry), identical-rerun-no-fits and overwrite-recomputes-all on every "
             "sequence of up to 3 runs over 2 datasets x 2 strategies x 2 folds: any options, a crash at every k-th fit / "
             "predict call, resume, identical re-run, overwrite, train-part added; a seeded sample of the run sequences "
             "is replayed on the real Orchestrator with an on-disk HDDResults store, failing stub classifiers whose "
             "predictions encode their training set, and after every run the files (content hashes, which run wrote "
             "them), the persisted registry, the fit / predict calls made and what a fresh process can read back are "
             "compared with the specification's snapshot; a regression benchmark on a whole-number target must read back the "
             "real-valued predictions from both stores. Non-trivial = sequence containing a crash.",
        assumptions=["compat shim", "KFold without shuffling; in-memory result stores recompute by design and are not claimed",
                     "spec->code comparison of complete snapshots (every state variable is observable from the store and the stub's call log)"])


def replay(ctx, doc):
    sc = doc["scenario"]
    if sc.get("ram_stores"):
        msg = ram_stores_independent()
        print(msg)
        if msg:
            print("VIOLATION property=C19 replay=%s" % ctx.replay)
        return 1 if msg else 0
    work = os.path.join(ctx.work, "stores")
    os.makedirs(work, exist_ok=True)
    NFOLDS["n"] = sc.get("folds", 2)
    NFOLDS["presplit"] = bool(sc.get("presplit"))
    NFOLDS["single"] = bool(sc.get("single"))
    NFOLDS["uea"] = bool(sc.get("uea"))
    NFOLDS["cols"] = ["dim_0"] if NFOLDS["uea"] else ["dim_0", "aux"]
    NFOLDS["features"] = sc.get("features")
    obs = observe(sc["runs"], work, 0)
    print(canon(obs)[:3000])
    print("VIOLATION property=C19 replay=%s (re-run ./check C19 for the judged comparison)" % ctx.replay)
    return 1
