"""C06 -- metric definitions and laws. Spec: spec/Metrics.tla over spec/Num.tla."""
import numpy as np
import pandas as pd

from harness import tlc as T
from harness.core import canon
from harness.decode import decode_eps

REJECT = (ValueError, TypeError, NotImplementedError)

CLASS_OF = {
    "mean_absolute_scaled_error": "MeanAbsoluteScaledError",
    "median_absolute_scaled_error": "MedianAbsoluteScaledError",
    "mean_squared_scaled_error": "MeanSquaredScaledError",
    "median_squared_scaled_error": "MedianSquaredScaledError",
    "mean_absolute_error": "MeanAbsoluteError", "mean_squared_error": "MeanSquaredError",
    "median_absolute_error": "MedianAbsoluteError", "median_squared_error": "MedianSquaredError",
    "mean_absolute_percentage_error": "MeanAbsolutePercentageError",
    "median_absolute_percentage_error": "MedianAbsolutePercentageError",
    "mean_squared_percentage_error": "MeanSquaredPercentageError",
    "median_squared_percentage_error": "MedianSquaredPercentageError",
    "mean_relative_absolute_error": "MeanRelativeAbsoluteError",
    "median_relative_absolute_error": "MedianRelativeAbsoluteError",
    "geometric_mean_relative_absolute_error": "GeometricMeanRelativeAbsoluteError",
    "geometric_mean_relative_squared_error": "GeometricMeanRelativeSquaredError",
    "mean_asymmetric_error": "MeanAsymmetricError", "relative_loss": "RelativeLoss",
}
SCALED = {m for m in CLASS_OF if "scaled" in m}
RELATIVE = {m for m in CLASS_OF if "relative" in m}
PCT = {m for m in CLASS_OF if "percentage" in m}
HAS_SQRT = {"mean_squared_error", "median_squared_error", "mean_squared_percentage_error",
            "median_squared_percentage_error", "mean_squared_scaled_error", "median_squared_scaled_error",
            "geometric_mean_relative_squared_error"}


def power(cfg):
    n = len(cfg["cols"][0]["yt"])
    w = n if not cfg["hw"] else sum(cfg["hw"])
    if cfg["metric"].startswith("geometric"):
        return 2 * w if cfg["sqrt"] else w
    return 2 if cfg["sqrt"] else 1


def call(cfg, variant=0):
    """Call the real function (and its class) on the configuration. Returns
    (list of per-column floats or [aggregate], class_equal flag or None)."""
    import sktime.performance_metrics.forecasting as M
    cols = cfg["cols"]
    ncol = len(cols)
    n = len(cols[0]["yt"])

    def mat(key):
        a = np.array([[float(v) for v in c[key]] for c in cols]).T  # (len, ncol)
        if variant % 5 == 4:
            a = a.astype("int64")       # count data: integer containers, same real numbers
        return a[:, 0] if ncol == 1 and variant % 2 == 0 else a
    yt, yp = mat("yt"), mat("yp")
    m = cfg["metric"]
    kw = {}
    if cfg["hw"]:
        kw["horizon_weight"] = np.array(cfg["hw"], dtype=float) if variant % 3 else list(cfg["hw"])
    kw["multioutput"] = {"raw": "raw_values", "uniform": "uniform_average"}.get(cfg["mo"], None)
    if cfg["mo"] == "weights":
        kw["multioutput"] = [float(w) for w in cfg["mow"]]
    ckw = {}   # class constructor options
    extra = {}  # extra data
    if m in PCT:
        ckw["symmetric"] = bool(cfg["sym"])
    if m in HAS_SQRT:
        ckw["square_root"] = bool(cfg["sqrt"])
    if m in SCALED:
        ckw["sp"] = int(cfg["sp"])
        ytr = mat("ytr")
        if variant % 4 == 3:   # pandas inputs with the training index before the truth's
            ntr = len(cols[0]["ytr"])
            mk = (lambda a, lo: pd.Series(a, index=pd.RangeIndex(lo, lo + len(a))) if a.ndim == 1
                  else pd.DataFrame(a, index=pd.RangeIndex(lo, lo + len(a))))
            ytr, yt, yp = mk(ytr, 0), mk(yt, ntr), mk(yp, ntr)
        extra["y_train"] = ytr
    if m in RELATIVE or m == "relative_loss":
        extra["y_pred_benchmark"] = mat("yb")
    if m == "mean_asymmetric_error":
        ckw.update(asymmetric_threshold=float(cfg["thr"]), left_error_function=cfg["lf"],
                   right_error_function=cfg["rf"])
    if m == "relative_loss":
        ckw["relative_loss_function"] = {"mae": M.mean_absolute_error, "mse": M.mean_squared_error,
                                         "mdae": M.median_absolute_error, "masym": M.mean_asymmetric_error}[cfg["rlf"]]
    f = getattr(M, m)
    val = f(yt, yp, **extra, **ckw, **kw)
    out = [float(v) for v in np.atleast_1d(np.asarray(val, dtype=float)).ravel()]
    # the class with the same options must return exactly what the function returns
    cls_equal = None
    if not cfg["hw"] and cfg["mo"] != "weights" and (cfg["mo"] == "uniform" or ncol == 1):
        from sklearn.base import clone
        fv = f(yt, yp, **extra, **ckw)
        C = getattr(M, CLASS_OF[m])
        # built with the options, re-parameterised after construction with defaults, and a clone of either
        insts = [C(**ckw), C().set_params(**ckw), clone(C(**ckw))]
        flip = {k: (not v if isinstance(v, bool) else v + 1) for k, v in ckw.items() if isinstance(v, (bool, int))}
        if flip:
            insts.append(C(**dict(ckw, **flip)).set_params(**ckw))
        cls_equal = all(bool(np.array_equal(np.asarray(i(yt, yp, **extra)), np.asarray(fv), equal_nan=True)) for i in insts)
        cls_equal = cls_equal and all(i.get_params()[k] == v for i in insts for k, v in ckw.items() if not callable(v))
    # ... also with the call-time options (horizon weights, multioutput) handed to the class instance
    if cls_equal is not False:
        try:
            C = getattr(M, CLASS_OF[m])
            cv = C(**ckw)(yt, yp, **extra, **kw)
            if not np.array_equal(np.asarray(cv, dtype=float), np.asarray(val, dtype=float), equal_nan=True):
                cls_equal = False
        except TypeError:
            cls_equal = False
    # averaging over output columns: the aggregate is the (weighted) mean of the per-column values.  Scaled errors and
    # relative_loss aggregate numerator and denominator separately (as documented) and are not judged by this clause
    if ncol == 2 and cfg["mo"] == "raw" and m not in SCALED and m != "relative_loss" and np.all(np.isfinite(out)):
        base = dict(kw)
        base.pop("multioutput")
        u = f(yt, yp, **extra, **ckw, **base, multioutput="uniform_average")
        w = f(yt, yp, **extra, **ckw, **base, multioutput=[1.0, 3.0])
        if not (np.isclose(u, np.mean(out), rtol=1e-12, atol=0) and np.isclose(w, np.average(out, weights=[1, 3]), rtol=1e-12, atol=0)):
            cls_equal = "agg"
    return out, cls_equal


def observe(cfg, variant=0):
    try:
        vals, cls_equal = call(cfg, variant)
    except Exception as e:
        return {"crash": type(e).__name__ + ": " + str(e)[:160]}
    p = power(cfg)
    return {"pow": p, "cols": [decode_eps(v, p) for v in vals], "raw": vals, "cls": cls_equal}


def matches(spec_vals, dec):
    return any([v[2], v[0], v[1]] in dec or (v[0] == 0 and [0, 0, 1] in dec) for v in spec_vals)


def random_cfg(rng):
    m = rng.choice(sorted(CLASS_OF))
    geo = m.startswith("geometric")
    n = rng.randint(1, 3 if geo else 4)
    lo, hi = (-2, 3) if geo else (-3, 4)
    ncol = 1 if rng.random() < 0.6 else 2

    def vec(k):
        return [rng.randint(lo, hi) for _ in range(k)]
    sp = rng.choice([1, 2]) if m in SCALED else 1
    cols = [{"yt": vec(n), "yp": vec(n), "ytr": vec(rng.randint(sp + 1, sp + 4)), "yb": vec(n)} for _ in range(ncol)]
    if m in SCALED:
        L = len(cols[0]["ytr"])
        for c in cols:
            c["ytr"] = vec(L)
    hw = [rng.randint(1, 2) for _ in range(n)] if rng.random() < 0.5 else []
    sqrt = m in HAS_SQRT and rng.random() < 0.5
    median = m.startswith("median")
    agg_ok = (not sqrt) and not (median and hw) and m not in SCALED and m != "relative_loss" and not geo
    mo = "raw"
    mow = []
    if ncol == 2 and agg_ok and rng.random() < 0.5:
        mo = rng.choice(["uniform", "weights"])
        mow = [rng.randint(1, 3), rng.randint(1, 3)] if mo == "weights" else []
    lf = rng.choice(["squared", "absolute"])
    return {"metric": m, "cols": cols, "hw": hw, "mo": mo, "mow": mow,
            "sym": (rng.random() < 0.5) if m in PCT else True, "sqrt": sqrt, "sp": sp,
            "thr": rng.choice([0, 1, -1, 2]) if m == "mean_asymmetric_error" else 0,
            "lf": lf if m == "mean_asymmetric_error" else "squared",
            "rf": ("absolute" if lf == "squared" else "squared") if m == "mean_asymmetric_error" else "absolute",
            "rlf": rng.choice(["mae", "mse", "mdae", "masym"]) if m == "relative_loss" else "mae"}


def run(ctx):
    tier = ctx.tier
    ctx.model_check("MCMetrics", "MCMetrics.%s.cfg" % tier, coverage=False, timeout=1700)
    r = T.must(T.run("MCMetrics", "MCMetrics.%s.emit.cfg" % tier, ctx.work, workers=16, timeout=1700), "emit")
    if not r.printed:
        raise T.TLCError("no vectors")
    seen_metrics = set()
    ctx.notes.append("vectors emitted by TLC: %d" % len(r.printed))
    for i, v in enumerate(r.printed):
        cfg = v["cfg"]
        seen_metrics.add(cfg["metric"])
        obs = observe(cfg, i)
        ctx.evaluations += 1
        sc = {"cfg": cfg, "variant": i % 60}
        if "crash" in obs:
            ctx.violation(sc, "spec->code: %s raised %s" % (cfg["metric"], obs["crash"]))
            continue
        res = v["res"]
        exp_cols = res["cols"] if res["kind"] == "raw" else [[res["val"]]]
        if obs["pow"] != v["pow"] or len(obs["cols"]) != len(exp_cols) or \
                not all(matches(e, d) for e, d in zip(exp_cols, obs["cols"])):
            ctx.violation(sc, "spec->code: %s returned %s (decoded, power %d: %s); definition gives %s"
                          % (cfg["metric"], obs["raw"], obs["pow"], canon(obs["cols"])[:200], canon(exp_cols)[:200]))
        elif obs["cls"] == "agg":
            ctx.violation(sc, "AggregateIsMeanOfColumns: %s uniform / weighted multioutput differs from the mean of raw_values" % cfg["metric"])
        elif obs["cls"] is False:
            ctx.violation(sc, "ClassEqualsFunction: %s class differs from function" % cfg["metric"])
        if any(a != b for c in cfg["cols"] for a, b in zip(c["yt"], c["yp"])):
            ctx.nontriv(cfg)
        if i % 9000 == 0:
            ctx.sample({"cfg": cfg, "admissible": exp_cols, "observed": obs["raw"]})
    if seen_metrics != set(CLASS_OF):
        raise T.TLCError("vacuity: metrics never emitted: %s" % (set(CLASS_OF) - seen_metrics))
    recs = []
    nrand = 3000 if ctx.quick else 40000
    for t in range(nrand):
        cfg = random_cfg(ctx.rng)
        obs = observe(cfg, t)
        ctx.evaluations += 1
        if "crash" in obs:
            ctx.violation({"cfg": cfg, "variant": t % 60}, "%s raised %s" % (cfg["metric"], obs["crash"]))
            continue
        if obs["cls"] is False or obs["cls"] == "agg":
            ctx.violation({"cfg": cfg, "variant": t % 60}, "%s: %s" % ("ClassEqualsFunction" if obs["cls"] is False else "AggregateIsMeanOfColumns", cfg["metric"]))
        recs.append({"tid": t, "cfg": cfg, "obs": {"pow": obs["pow"], "cols": obs["cols"]}, "raw": obs["raw"]})
        ctx.nontriv(cfg)
    rejects, _ = ctx.judge("TraceMetrics", "TraceMetrics.cfg",
                           [{k: r_[k] for k in ("tid", "cfg", "obs")} for r_ in recs], timeout=2400)
    ctx.traces += len(recs) - len(rejects)
    for rec in recs:
        if rec["tid"] in rejects:
            ctx.violation({"cfg": rec["cfg"], "variant": rec["tid"] % 60},
                          "code->spec: TLC rejects %s = %s (%s)" % (rec["cfg"]["metric"], rec["raw"], rejects[rec["tid"]]))
    return ctx.finish(
        rule="TLC enumerates 18 metrics x options (symmetric, square_root, sp, horizon weights, multioutput "
             "raw/uniform/weights, asymmetric threshold and functions, relative loss function) x all truth/"
             "forecast vectors of length <= 2 over {-2,0,1,3} (training and benchmark series from small sets), "
             "checks the laws of C06 on the exact definition, and emits the admissible exact values (thinned "
             "1/9 in quick); the real function's float is decoded to an exact rational (through the announced "
             "power for roots and the EPS exponent for clamps) and must be one of them; each class must equal "
             "its function; random integer cases up to length 4 are judged by TraceMetrics.tla. Non-trivial = "
             "imperfect forecast; distinct by configuration.",
        assumptions=["compat shim (old _check_reg_targets signature, mean_squared_error(squared=))",
                     "floats are decoded to the unique rational with denominator <= 1e6 within 1e-10 relative",
                     "integer-valued inputs of bounded size only; overflow/underflow behaviour not examined"])


def replay(ctx, doc):
    sc = doc["scenario"]
    obs = observe(sc["cfg"], sc.get("variant", 0))
    print("observed:", canon(obs)[:1500])
    if "crash" in obs or obs.get("cls") in (False, "agg"):
        print("VIOLATION property=C06 replay=%s" % ctx.replay)
        return 1
    rejects, _ = ctx.judge("TraceMetrics", "TraceMetrics.cfg",
                           [{"tid": 0, "cfg": sc["cfg"], "obs": {"pow": obs["pow"], "cols": obs["cols"]}}])
    if rejects:
        print("VIOLATION property=C06 replay=%s" % ctx.replay)
        return 1
    print("replay accepted")
    return 0
