"""C07 -- evaluate(). Spec: spec/Evaluate.tla (over Splitters.tla)."""
import numpy as np
import pandas as pd

from harness import stubs
from harness import tlc as T
from harness.core import canon
from harness.decode import iround

REJECT = (ValueError, TypeError, NotImplementedError)


def make_cv(s, fhvariant=0):
    from sktime.forecasting.model_selection import (SlidingWindowSplitter, ExpandingWindowSplitter,
                                                    SingleWindowSplitter)
    fh = list(s["fh"]) if fhvariant % 2 == 0 else np.array(s["fh"])
    if s["kind"] == "sliding":
        return SlidingWindowSplitter(fh=fh, window_length=s["wl"], step_length=s["sl"],
                                     initial_window=s["iw"] or None, start_with_window=True)
    if s["kind"] == "expanding":
        return ExpandingWindowSplitter(fh=fh, initial_window=s["wl"], step_length=s["sl"], start_with_window=True)
    return SingleWindowSplitter(fh=fh, window_length=s["wl"] or None)


def observe(cfg, origin=0, variant=0):
    from sktime.forecasting.model_evaluation import evaluate
    s = cfg["split"]
    n = s["n"]
    tagf, tagm = "c07f", "c07m"
    stubs.reset(tagf)
    stubs.reset(tagm)
    # every fourth run: time points two apart (labels, not positions, are what forecasters are asked for)
    stride = 2 if variant % 4 == 3 else 1
    idx = pd.RangeIndex(origin, origin + stride * n, stride) if variant % 2 == 0 else \
        pd.Index(np.arange(origin, origin + stride * n, stride))

    def T(i):
        return (int(i) - origin) // stride if (int(i) - origin) % stride == 0 else -9
    y = pd.Series([1000.0 + t for t in range(n)], index=idx)
    X = pd.DataFrame({"x": [3000.0 + t for t in range(n)]}, index=idx) if cfg["nx"] else None
    F = stubs.make_recording_forecaster()
    fobj = F(tag=tagf)
    if cfg.get("prefit"):
        try:
            fobj.fit(y, X=X, fh=[1])
        except REJECT:
            pass
        stubs.reset(tagf)
    try:
        # the documented default strategy is "refit": every other refit scenario leaves the argument out
        kw = {} if (cfg["strategy"] == "refit" and (variant // 2) % 2 == 1) else {"strategy": cfg["strategy"]}
        res = evaluate(fobj, make_cv(s, variant), y, X=X,
                       scoring=stubs.RecordingMetric(tagm), return_data=bool(variant % 3 == 0), **kw)
    except REJECT:
        return {"rej": True}
    except Exception as e:
        return {"rej": False, "crash": type(e).__name__ + ": " + str(e)[:160]}
    # merge the two logs in program order: forecaster events and metric events alternate per fold
    fev = stubs.LOG[tagf]
    mev = stubs.LOG[tagm]
    events = []
    mi = 0
    for e in fev:
        if e["ev"] in ("fit", "update"):
            ok = e["values"] == [1000.0 + T(i) for i in e["index"]]
            xok = (e["x"] is None and not cfg["nx"]) or (e["x"] == e["index"])
            events.append({"ev": e["ev"], "times": [T(i) for i in e["index"]] if ok and xok else [-9],
                           "fh": [T(i) for i in e["fh"]] if e.get("fh") else [], "xtimes": [], "a": [], "b": [],
                           "upd": bool(e.get("upd", False))})
            if e["ev"] == "fit" and e.get("fh_rel"):
                # a relative horizon would be relative to the cutoff: normalise to absolute times
                events[-1]["fh"] = [T(e["index"][-1] + h) for h in e["fh"]]
        elif e["ev"] == "predict":
            events.append({"ev": "predict", "times": [], "fh": [T(i) for i in e["fh"]],
                           "xtimes": [T(i) for i in e["x"]] if e["x"] is not None else [], "a": [], "b": [],
                           "upd": False})
            if mi < len(mev):
                m = mev[mi]
                mi += 1
                events.append({"ev": "metric", "times": [], "fh": [], "xtimes": [], "upd": False,
                               "a": [iround(v) for v in m["a"]], "b": [iround(v) for v in m["b"]]})
    rows = []
    for _, r in res.iterrows():
        rows.append({"score": iround(r["test_Rec"]), "cutoff": T(iround(r["cutoff"])),
                     "len": int(r["len_train_window"])})
    o = {"rej": False, "events": events, "rows": rows}
    if mi != len(mev):
        o["crash"] = "metric called %d times for %d predictions" % (len(mev), mi)
    return o


def honest(ctx, cfg, origin):
    """evaluate() on real forecasters and an asymmetric metric vs. a hand-made per-fold loop
    built from the SPECIFICATION's splits (train/test positions given by TLC)."""
    from sktime.forecasting.model_evaluation import evaluate
    from sktime.forecasting.naive import NaiveForecaster
    from sktime.forecasting.trend import PolynomialTrendForecaster
    from sktime.performance_metrics.forecasting import MeanAbsolutePercentageError
    s, exp = cfg["cfg"]["split"], cfg["exp"]
    if exp["rej"]:
        return None
    n = s["n"]
    rng = np.random.RandomState(n * 7 + len(exp["rows"]))
    y = pd.Series(50 + rng.rand(n) * 20 + np.arange(n), index=pd.RangeIndex(origin, origin + n))
    metric = MeanAbsolutePercentageError(symmetric=False)
    folds = [(e["times"], nxt["fh"]) for e, nxt in zip(exp["events"], exp["events"][1:])
             if e["ev"] in ("fit", "update") and nxt["ev"] == "predict"]
    bad = None
    for name, mk in (("naive_mean", lambda: NaiveForecaster("mean")), ("poly1", lambda: PolynomialTrendForecaster(degree=1))):
        try:
            res = evaluate(mk(), make_cv(s), y, strategy=cfg["cfg"]["strategy"], scoring=metric)
        except REJECT:
            # e.g. the trend forecaster cannot be updated with windows that leave gaps in time:
            # the hand-made loop below performs the same calls and must fail the same way
            res = None
        f = None
        for k, (train, test) in enumerate(folds):
            if res is None:
                try:
                    ytr = y.iloc[train]
                    if k == 0 or cfg["cfg"]["strategy"] == "refit":
                        f = mk()
                        f.fit(ytr)
                    else:
                        f.update(ytr)
                    continue
                except REJECT:
                    break
        else:
            if res is None:
                bad = "%s: evaluate raised but the per-fold loop ran" % name
        if res is None:
            if bad:
                break
            continue
        # scoring omitted: the documented default is the symmetric mean absolute percentage error
        res0 = evaluate(mk(), make_cv(s), y, strategy=cfg["cfg"]["strategy"]) if name == "naive_mean" else None
        for k, (train, test) in enumerate(folds):
            ytr, yte = y.iloc[train], y.iloc[test]
            try:
                if k == 0 or cfg["cfg"]["strategy"] == "refit":
                    f = mk()
                    f.fit(ytr)
                else:
                    f.update(ytr)
            except REJECT as e:
                bad = "%s fold %d: evaluate returned a table but the honest loop is rejected (%s)" % (name, k, e)
                break
            from sktime.forecasting.base import ForecastingHorizon
            pred = f.predict(ForecastingHorizon(yte.index, is_relative=False))
            if k >= len(res) or (res0 is not None and k >= len(res0)):
                bad = "%s: evaluate returned %d rows for %d splits" % (name, len(res), len(folds))
                break
            if res0 is not None:
                smape = float(np.mean(2 * np.abs(yte.values - pred.values) / (np.abs(yte.values) + np.abs(pred.values))))
                got0 = float(res0.iloc[k][[c for c in res0.columns if c.startswith("test_")][0]])
                if abs(smape - got0) > 1e-9 * max(1, abs(smape)):
                    bad = "%s fold %d: evaluate without scoring reports %s, the default metric sMAPE(y_true, y_pred) is %s" % (name, k, got0, smape)
                    break
            want = metric(yte, pred)
            got = res.iloc[k]["test_" + metric.name]
            if abs(want - got) > 1e-9 * max(1, abs(want)) or int(res.iloc[k]["cutoff"]) != int(ytr.index[-1]) \
                    or int(res.iloc[k]["len_train_window"]) != len(ytr):
                bad = "%s fold %d: evaluate row (%s, cutoff %s, len %s) vs honest (%s, %s, %s)" % (
                    name, k, got, res.iloc[k]["cutoff"], res.iloc[k]["len_train_window"], want, ytr.index[-1], len(ytr))
                break
        if bad:
            break
    return bad


def random_cfg(rng, big):
    kind = rng.choice(["sliding", "sliding", "expanding", "single"])
    n = rng.randint(3, big)
    k = rng.randint(1, 4)
    fh = sorted(rng.sample(range(1, 10), k))
    s = {"kind": kind, "n": n, "fh": fh, "wl": rng.randint(1, 12), "sl": rng.randint(1, 8), "iw": 0, "sww": True,
         "cuts": [0], "ts": ["none", 0], "tr": ["none", 0]}
    if kind == "sliding" and rng.random() < 0.4:
        s["iw"] = s["wl"] + rng.randint(0, 6)
    if kind == "single":
        s["wl"] = rng.randint(0, 12)
        s["fh"] = [h for h in fh if h < n] or [1]
    return {"split": s, "strategy": rng.choice(["refit", "update"]), "nx": rng.choice([0, 1]),
            "prefit": rng.random() < 0.3}


def run(ctx):
    tier = ctx.tier
    ctx.model_check("MCEvaluate", "MCEvaluate.%s.cfg" % tier, need_actions=("PickKind", "PickN", "PickWin"))
    r = T.must(T.run("MCEvaluate", "MCEvaluate.%s.emit.cfg" % tier, ctx.work, workers=16), "emit")
    if not r.printed:
        raise T.TLCError("no vectors")
    ctx.notes.append("vectors emitted by TLC: %d" % len(r.printed))
    nh = 0
    for i, v in enumerate(r.printed):
        cfg, exp = v["cfg"], v["exp"]
        origin = [0, 4, -3][i % 3]
        obs = observe(cfg, origin, i)
        ctx.evaluations += 1
        sc = {"cfg": cfg, "origin": origin, "variant": i % 60}
        if obs != exp:
            ctx.violation(sc, "spec->code: expected %s observed %s" % (canon(exp)[:300], canon(obs)[:300]))
        if not exp["rej"]:
            ctx.nontriv(cfg)
            if len(exp["rows"]) >= 2 and (i % (40 if ctx.quick else 10) == 0):
                b = honest(ctx, v, origin)
                nh += 1
                ctx.evaluations += 1
                if b:
                    ctx.violation(dict(sc, honest=True), "honest recomputation differs: " + b)
        if i % 3000 == 0:
            ctx.sample({"cfg": cfg, "expected": exp})
    ctx.notes.append("honest per-fold recomputations with real forecasters: %d" % nh)
    recs = []
    for t in range(300 if ctx.quick else 3000):
        cfg = random_cfg(ctx.rng, 40 if ctx.quick else 90)
        origin = ctx.rng.randint(-30, 60)
        obs = observe(cfg, origin, t)
        ctx.evaluations += 1
        if "crash" in obs:
            ctx.violation({"cfg": cfg, "origin": origin, "variant": t % 60}, "crash: " + obs["crash"])
            continue
        recs.append({"tid": t, "cfg": cfg, "obs": obs, "origin": origin})
        if not obs["rej"]:
            ctx.nontriv(cfg)
    rejects, _ = ctx.judge("TraceEvaluate", "TraceEvaluate.cfg", [{k: x[k] for k in ("tid", "cfg", "obs")} for x in recs])
    ctx.traces += len(recs) - len(rejects)
    for rec in recs:
        if rec["tid"] in rejects:
            ctx.violation({"cfg": rec["cfg"], "origin": rec["origin"], "variant": rec["tid"] % 60},
                          "code->spec: TLC rejects recorded evaluate() run, clause %s; observed %s"
                          % (rejects[rec["tid"]], canon(rec["obs"])[:300]))
    return ctx.finish(
        rule="TLC enumerates splitter configurations (sliding incl. initial window, expanding, single; "
             "start_with_window=True) x strategy x exogenous data within the cfg constants and emits, per fold, "
             "the data the forecaster must receive (fit or update, exact time points, horizon), the prediction "
             "request, the metric call (truth first) and the result row; a recording forecaster and recording "
             "metric inside the real evaluate() are compared event by event; a subset is re-run with real "
             "forecasters and an asymmetric metric against a per-fold loop over the specification's splits; "
             "random larger configurations are judged by TraceEvaluate.tla. Non-trivial = accepted "
             "configuration; distinct by configuration.",
        assumptions=["compat shim (DataFrame.append)", "the recording forecaster/metric are treated like any other"])


def replay(ctx, doc):
    sc = doc["scenario"]
    obs = observe(sc["cfg"], sc.get("origin", 0), sc.get("variant", 0))
    print("observed:", canon(obs)[:3000])
    if "crash" in obs:
        print("VIOLATION property=C07 replay=%s" % ctx.replay)
        return 1
    rejects, _ = ctx.judge("TraceEvaluate", "TraceEvaluate.cfg", [{"tid": 0, "cfg": sc["cfg"], "obs": obs}])
    if rejects:
        print("VIOLATION property=C07 replay=%s" % ctx.replay)
        return 1
    print("replay accepted")
    return 0
