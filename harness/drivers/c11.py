"""C11 -- elementary forecasters compute the textbook forecast. Spec: spec/Elementary.tla over Num.tla."""
import warnings

import numpy as np
import pandas as pd

from harness import tlc as T
from harness.core import canon
from harness.decode import rational

REJECT = (ValueError, TypeError, NotImplementedError)
MISS = 99


def observe(cfg, origin=0, variant=0):
    from sktime.forecasting.naive import NaiveForecaster
    from sktime.forecasting.trend import PolynomialTrendForecaster
    warnings.filterwarnings("ignore")
    y = [np.nan if v == MISS else float(v) for v in cfg["y"]]
    n = len(y)
    idx = pd.RangeIndex(origin, origin + n) if variant % 2 == 0 else pd.Index(np.arange(origin, origin + n))
    ys = pd.Series(y, index=idx)
    if variant % 4 == 3 and MISS not in cfg["y"]:
        ys = ys.astype("int64")         # count data: the forecasts are the same real numbers
    try:
        if cfg["kind"] == "naive":
            f = NaiveForecaster(strategy=cfg["strategy"], sp=cfg["sp"], window_length=cfg["w"] or None)
        else:
            f = PolynomialTrendForecaster(degree=cfg["deg"], with_intercept=bool(cfg["icpt"]))
        if variant % 5 == 4:
            # the same object was configured differently, fitted, and re-parameterised with set_params before this fit
            if cfg["kind"] == "naive":
                g = NaiveForecaster(strategy="mean" if cfg["strategy"] != "mean" else "last", sp=1, window_length=None)
            else:
                g = PolynomialTrendForecaster(degree=cfg["deg"] + 1, with_intercept=not bool(cfg["icpt"]))
            try:
                g.fit(ys.iloc[: max(3, len(ys) - 1)])
            except Exception:
                pass
            f = g.set_params(**f.get_params(deep=False))
        fh = list(cfg["fh"])
        if variant % 3 == 1 or variant % 5 == 4:         # (re-fitting WITHOUT a horizon is rejected by the library, DESIGN 10.2)
            f.fit(ys, fh=fh)
            p = f.predict()
        else:
            f.fit(ys)
            if variant % 7 in (2, 5):
                # between fit and predict another forecaster of the same kind and configuration is fitted on other data
                sib = type(f)(**f.get_params(deep=False))
                other = pd.Series((ys.fillna(0.0).values[::-1] * 3 + 11).astype(float), index=ys.index)
                try:
                    sib.fit(other)
                except Exception:
                    pass
            p = f.predict(np.array(fh) if variant % 3 == 2 else fh)
    except Exception as e:
        return {"crash": type(e).__name__ + ": " + str(e)[:160]}
    return {"index": [int(i) - origin for i in p.index], "vals": [rational(float(v)) or [] for v in p.values],
            "raw": [float(v) for v in p.values]}


def delegate_checks(ctx):
    """The statsmodels adapters return the forecasts of the wrapped statsmodels model fitted with
    the same options, selected for exactly the requested steps."""
    from sktime.forecasting.exp_smoothing import ExponentialSmoothing
    from sktime.forecasting.ets import AutoETS
    from sktime.forecasting.theta import ThetaForecaster
    from statsmodels.tsa.holtwinters import ExponentialSmoothing as SM_ES
    from statsmodels.tsa.holtwinters import SimpleExpSmoothing
    from statsmodels.tsa.exponential_smoothing.ets import ETSModel
    warnings.filterwarnings("ignore")
    rng = np.random.RandomState(ctx.seed + 5)
    n = 24
    t = np.arange(n)
    series = [30 + 0.8 * t + 4 * np.sin(2 * np.pi * t / 4) + rng.rand(n),
              50 + 3 * np.cos(t / 3.0) + rng.rand(n) * 2]
    opts = [dict(), dict(trend="add"), dict(trend="add", damped_trend=True), dict(trend="mul"),
            dict(seasonal="add", sp=4), dict(trend="add", seasonal="mul", sp=4),
            dict(use_boxcox=0.0), dict(use_boxcox=True), dict(trend="add", use_boxcox=0.5)]
    fhs = [[1], [1, 2, 3], [2, 5], [4]]
    n_ok = 0
    for si, yv in enumerate(series):
        for origin in (0, 7):
            y = pd.Series(yv, index=pd.RangeIndex(origin, origin + n))
            for o in (opts if not ctx.quick else opts[::1]):
                for fh in fhs:
                    ctx.evaluations += 1
                    sc = {"delegate": "ExponentialSmoothing", "options": {k: str(v) for k, v in o.items()},
                          "fh": fh, "origin": origin, "series": si}
                    try:
                        p = ExponentialSmoothing(**o).fit(y).predict(fh)
                        so = dict(o)
                        sp = so.pop("sp", None)
                        ref = SM_ES(y, seasonal_periods=sp, initialization_method="estimated", **so).fit()
                        want = ref.forecast(max(fh))
                        want = [float(want.iloc[h - 1]) for h in fh]
                    except Exception as e:
                        ctx.violation(sc, "delegate crash %s: %s" % (type(e).__name__, str(e)[:120]))
                        continue
                    if [int(i) for i in p.index] != [origin + n - 1 + h for h in fh] or \
                            not np.allclose(p.values, want, rtol=1e-9, atol=1e-9):
                        ctx.violation(sc, "ExponentialSmoothing(%s) gives %s, statsmodels with the same options %s"
                                      % (o, list(p.values), want))
                    else:
                        n_ok += 1
            # AutoETS (auto=False) against ETSModel; Theta's SES level against SimpleExpSmoothing
            for o in (dict(), dict(trend="add"), dict(error="mul", trend="add", damped_trend=True),
                      dict(seasonal="add", sp=4),
                      dict(trend="add", initialization_method="known", initial_level=float(yv[0]), initial_trend=0.7),
                      dict(initialization_method="known", initial_level=float(yv[0]) + 1.5)):
                for fh in fhs[:3]:
                    ctx.evaluations += 1
                    sc = {"delegate": "AutoETS", "options": {k: str(v) for k, v in o.items()}, "fh": fh,
                          "origin": origin, "series": si}
                    try:
                        p = AutoETS(**o).fit(y).predict(fh)
                        so = dict(o)
                        sp = so.pop("sp", 1)
                        ref = ETSModel(y, seasonal_periods=sp, **so).fit(disp=False)
                        start = n + min(fh) - 1
                        end = n + max(fh) - 1
                        full = ref.predict(start=start, end=end)
                        want = [float(full.iloc[h - min(fh)]) for h in fh]
                    except Exception as e:
                        ctx.violation(sc, "delegate crash %s: %s" % (type(e).__name__, str(e)[:120]))
                        continue
                    if [int(i) for i in p.index] != [origin + n - 1 + h for h in fh] or \
                            not np.allclose(p.values, want, rtol=1e-7, atol=1e-7):
                        ctx.violation(sc, "AutoETS(%s) gives %s, statsmodels ETSModel %s" % (o, list(p.values), want))
                    else:
                        n_ok += 1
    # Theta on top of the exponential smoothing adapter: simple exponential smoothing with drift of the seasonally adjusted
    # series (classical multiplicative decomposition), the forecasts re-seasonalised afterwards.  Checked structurally:
    # forecast / seasonal index of its time point - SES level is linear in the step, with half the least-squares slope
    # of the adjusted series as its slope
    from statsmodels.tsa.seasonal import seasonal_decompose
    for si in range(4 if ctx.quick else 12):
        r2 = np.random.RandomState(ctx.seed * 10 + si)
        sp = [4, 1, 3, 4][si % 4]
        pat = np.array([1.25, 0.8, 1.05, 0.9][:sp]) if sp > 1 else np.ones(1)
        yv = (40 + (1.1 + 0.2 * si) * t + r2.rand(n) * 2) * pat[t % sp]
        for origin in (0, 5):
            ctx.evaluations += 1
            sc = {"delegate": "ThetaForecaster", "sp": sp, "series": si, "origin": origin}
            try:
                y = pd.Series(yv, index=pd.RangeIndex(origin, origin + n))
                # consecutive steps (the deseasonalizer aligns a stretch of time by its first point; horizons with gaps
                # are re-seasonalised as if they had none -- outside the listed properties, see DESIGN 10.7)
                fh = [1, 2, 3, 4, 5, 6] if origin == 0 else [3, 4, 5, 6, 7]
                p = ThetaForecaster(sp=sp).fit(y).predict(fh)
                seas = seasonal_decompose(yv, model="multiplicative", period=sp).seasonal[:sp] if sp > 1 else np.ones(1)
                ydes = yv / seas[t % sp]
                level = float(SM_ES(ydes, initialization_method="estimated").fit().forecast(1)[0])
                slope = float(np.polyfit(t, ydes, 1)[0]) / 2
                d = [float(p.iloc[k]) / seas[(n + h - 1) % sp] - level for k, h in enumerate(fh)]
                got = [(d[k] - d[0]) / (fh[k] - fh[0]) for k in range(1, len(fh))]
            except Exception as e:
                ctx.violation(sc, "delegate crash %s: %s" % (type(e).__name__, str(e)[:120]))
                continue
            try:
                # the same after update(update_params=True): the drift's slope is that of all the data seen, with the
                # seasonal indices of the first fit; with and without seasonal adjustment
                for des in (True, False):
                    if des and sp > 1:
                        # (with seasonal adjustment the forecaster keeps the ADJUSTED training values next to the raw new
                        # ones and adjusts both again on update: observation outside the listed properties, DESIGN 10.7)
                        continue
                    m = 18
                    f = ThetaForecaster(sp=sp, deseasonalize=des).fit(y.iloc[:m])
                    f.update(y.iloc[m:], update_params=True)
                    pu = f.predict(fh)
                    sea = seasonal_decompose(yv[:m], model="multiplicative", period=sp).seasonal[:sp] if (sp > 1 and des) else np.ones(1)
                    k_ = len(sea)
                    slope_u = float(np.polyfit(t, yv / sea[t % k_], 1)[0]) / 2
                    du = [float(pu.iloc[k]) / sea[(n + h - 1) % k_] for k, h in enumerate(fh)]
                    got_u = [(du[k] - du[0]) / (fh[k] - fh[0]) for k in range(1, len(fh))]
                    if not np.allclose(got_u, slope_u, rtol=1e-6, atol=1e-8):
                        ctx.violation(dict(sc, updated=True, deseasonalize=des),
                                      "ThetaDriftUsesAllDataAfterParameterUpdate: after fit on %d points and update(update_params="
                                      "True) with %d more the forecast increments per step are %s, half the slope of the %d points "
                                      "is %.6f" % (m, n - m, got_u, n, slope_u))
                        break
            except Exception as e:
                ctx.violation(dict(sc, updated=True), "delegate crash %s: %s" % (type(e).__name__, str(e)[:120]))
            if [int(i) for i in p.index] != [origin + n - 1 + h for h in fh] or not np.allclose(got, slope, rtol=1e-6, atol=1e-8):
                ctx.violation(sc, "ThetaIsSesPlusDriftReseasonalised: forecasts %s; after removing the seasonal index and the "
                                  "SES level %.6f the increments per step are %s, half the trend slope is %.6f"
                              % (list(p.values), level, got, slope))
            else:
                n_ok += 1
    # ... and on a noisy series (smoothing level well below 1, so that the length of the series enters the drift): the
    # forecasts do not depend on where the integer time index starts
    for si in range(2 if ctx.quick else 6):
        r3 = np.random.RandomState(ctx.seed * 10 + 50 + si)
        yv = 50 + 0.3 * t + 8 * r3.randn(n)
        ctx.evaluations += 1
        sc = {"delegate": "ThetaForecaster", "noisy": True, "series": si}
        try:
            ps = [ThetaForecaster(sp=1).fit(pd.Series(yv, index=pd.RangeIndex(o_, o_ + n))).predict([1, 2, 3, 6]) for o_ in (0, 9)]
            if not np.allclose(ps[0].values, ps[1].values, rtol=1e-9, atol=1e-9) or \
                    [int(i) - 9 for i in ps[1].index] != [int(i) for i in ps[0].index]:
                ctx.violation(sc, "ShiftInvariance: theta forecasts %s for a series starting at 0, %s for the same values starting at 9"
                              % (list(ps[0].values), list(ps[1].values)))
            else:
                n_ok += 1
        except Exception as e:
            ctx.violation(sc, "delegate crash %s: %s" % (type(e).__name__, str(e)[:120]))
    # AutoETS(auto=True): the reported model is the candidate with the least information criterion among the
    # documented candidate set (non-seasonal: error x trend x damped), each fitted by statsmodels with its own options
    lvl = 100 - 60 * 0.75 ** t          # a trend that levels off: damped candidates matter
    # (short series: the criteria penalise parameters differently and may prefer different candidates)
    auto_series = [lvl + rng.rand(n) * 0.5, series[0], series[0][:9], 20 + 0.4 * t[:8] + rng.rand(8) * 2, lvl[:10] + rng.rand(10)]
    for si, yv in enumerate(auto_series):
        n = len(yv)
        for ic in ("aic", "bic", "aicc"):
            if ctx.quick and (si, ic) not in ((0, "aic"), (2, "bic"), (3, "bic"), (3, "aicc"), (4, "aicc")):
                continue
            ctx.evaluations += 1
            sc = {"delegate": "AutoETS(auto=True)", "ic": ic, "series": si}
            try:
                y = pd.Series(yv)
                f = AutoETS(auto=True, information_criterion=ic).fit(y)
                p = f.predict([1, 2, 5])
                cands = []
                for error in ("add", "mul"):
                    for trend in ("add", None):
                        for damped in (True, False):
                            if trend is None and damped:
                                continue
                            ref = ETSModel(y, error=error, trend=trend, damped_trend=damped, seasonal=None,
                                           seasonal_periods=1).fit(disp=False)
                            cands.append((float(getattr(ref, ic)), (error, trend, damped), ref))
                best = min(cands, key=lambda c: c[0])
                full = best[2].predict(start=n, end=n + 4)
                want = [float(full.iloc[h - 1]) for h in (1, 2, 5)]
                got_ic = best[0]        # (only forecasts are compared: the fitted statsmodels object is private)
            except Exception as e:
                ctx.violation(sc, "delegate crash %s: %s" % (type(e).__name__, str(e)[:120]))
                continue
            if not np.isclose(got_ic, best[0], rtol=1e-6, atol=1e-6) or not np.allclose(p.values, want, rtol=1e-5, atol=1e-5):
                ctx.violation(sc, "AutoETS(auto=True, %s) reports a model with %s = %.6f and forecasts %s; the best candidate %s "
                                  "has %.6f and forecasts %s" % (ic, ic, got_ic, list(p.values), best[1], best[0], want))
            else:
                n_ok += 1
    ctx.notes.append("statsmodels delegation comparisons passed: %d" % n_ok)


def random_cfg(rng):
    if rng.random() < 0.6:
        s = rng.choice(["last", "mean", "mean", "drift"])
        sp = 1 if s == "drift" else rng.randint(1, 4)
        n = rng.randint(max(3, sp + 1), 12)
        w = 0
        if s != "last" and rng.random() < 0.7:
            w = rng.randint(max(2, sp), n)
        y = [rng.randint(-5, 6) for _ in range(n)]
        fh = sorted(rng.sample(range(1, 9), rng.randint(1, 4)))
        if s == "mean" and (w or n) >= 2 * sp + 1 and rng.random() < 0.3:
            y[n - 1 - rng.randrange(min(w or n, n))] = MISS
            # keep every season populated
            W = w or n
            for r in range(sp):
                if not any(y[t] != MISS for t in range(n - W, n) if (t % sp) == r):
                    y = [v if v != MISS else 1 for v in y]
        return {"kind": "naive", "strategy": s, "sp": sp, "w": w, "y": y, "fh": fh, "deg": 1, "icpt": True}
    d = rng.randint(0, 2)
    n = rng.randint(d + 2, 8)
    fh = sorted(rng.sample(range(-(n - 1), 6), rng.randint(1, 4)))
    return {"kind": "poly", "strategy": "last", "sp": 1, "w": 0, "y": [rng.randint(-4, 5) for _ in range(n)],
            "fh": fh, "deg": d, "icpt": True if d == 0 else rng.random() < 0.6}


def run(ctx):
    tier = ctx.tier
    ctx.model_check("MCElementary", "MCElementary.%s.cfg" % tier, coverage=False, timeout=1700)
    r = T.must(T.run("MCElementary", "MCElementary.%s.emit.cfg" % tier, ctx.work, workers=16, timeout=1700), "emit")
    if not r.printed:
        raise T.TLCError("no vectors")
    ctx.exhaustive = False
    ctx.notes.append("vectors emitted by TLC (thinned): %d" % len(r.printed))
    seen = set()
    for i, v in enumerate(r.printed):
        cfg = v["cfg"]
        seen.add((cfg["kind"], cfg["strategy"] if cfg["kind"] == "naive" else cfg["deg"], cfg["sp"] > 1))
        origin = [0, 5, -3][i % 3]
        obs = observe(cfg, origin, i)
        ctx.evaluations += 1
        sc = {"cfg": cfg, "origin": origin, "variant": i % 60}
        if "crash" in obs:
            ctx.violation(sc, "crash: " + obs["crash"])
            continue
        want = [[e[0], e[1]] for e in v["exp"]]
        if obs["index"] != v["index"] or obs["vals"] != want:
            ctx.violation(sc, "spec->code: textbook forecast %s at %s; code returned %s at %s"
                          % (want, v["index"], obs["raw"], obs["index"]))
        ctx.nontriv(cfg)
        if i % 2500 == 0:
            ctx.sample({"cfg": cfg, "textbook": want, "observed": obs["raw"]})
    if len(seen) < 8:
        raise T.TLCError("vacuity: only %s emitted" % sorted(seen))
    recs = []
    for t in range(2000 if ctx.quick else 20000):
        cfg = random_cfg(ctx.rng)
        origin = ctx.rng.randint(-20, 40)
        obs = observe(cfg, origin, t)
        ctx.evaluations += 1
        if "crash" in obs:
            ctx.violation({"cfg": cfg, "origin": origin, "variant": t % 60}, "crash: " + obs["crash"])
            continue
        recs.append({"tid": t, "cfg": cfg, "obs": {"index": obs["index"], "vals": obs["vals"]}, "raw": obs["raw"],
                     "origin": origin})
        ctx.nontriv(cfg)
    rejects, _ = ctx.judge("TraceElementary", "TraceElementary.cfg", [{k: x[k] for k in ("tid", "cfg", "obs")} for x in recs])
    ctx.traces += len(recs) - len(rejects)
    for rec in recs:
        if rec["tid"] in rejects:
            ctx.violation({"cfg": rec["cfg"], "origin": rec["origin"], "variant": rec["tid"] % 60},
                          "code->spec: TLC rejects forecast %s (%s)" % (rec["raw"], rejects[rec["tid"]]))
    delegate_checks(ctx)
    return ctx.finish(
        rule="TLC enumerates naive (last / mean / drift, sp 1-3, window None or 1-5, one missing value for the "
             "mean strategies, in-sample steps where defined) and polynomial-trend (degree 0-2, with/without "
             "intercept, in-sample and out-of-sample) configurations over all integer series of length <= 5/6 "
             "from {-1,2,3}, proves least-squares orthogonality, seasonal repetition and drift linearity on the "
             "definitions, and emits the exact forecasts (thinned); the real forecasters' floats are decoded to "
             "exact rationals and compared; random longer cases are judged by TraceElementary.tla; statsmodels "
             "adapters are compared with statsmodels called directly with the same options. Non-trivial = every "
             "case; distinct by configuration.",
        assumptions=["compat shim", "rational decoder (denominator <= 1e6)",
                     "statsmodels' own numerical accuracy is trusted (delegation and step selection are checked)"])


def replay(ctx, doc):
    sc = doc["scenario"]
    if "delegate" in sc:
        n0 = len(ctx.violations)
        delegate_checks(ctx)
        return 1 if len(ctx.violations) > n0 else 0
    obs = observe(sc["cfg"], sc.get("origin", 0), sc.get("variant", 0))
    print("observed:", canon(obs)[:1500])
    if "crash" in obs:
        print("VIOLATION property=C11 replay=%s" % ctx.replay)
        return 1
    rejects, _ = ctx.judge("TraceElementary", "TraceElementary.cfg",
                           [{"tid": 0, "cfg": sc["cfg"], "obs": {"index": obs["index"], "vals": obs["vals"]}}])
    if rejects:
        print("VIOLATION property=C11 replay=%s" % ctx.replay)
        return 1
    print("replay accepted")
    return 0
