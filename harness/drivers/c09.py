"""C09 -- composite forecasters mean the composition of their parts. Spec: spec/Compose.tla."""
import copy

import numpy as np
import pandas as pd

from harness import stubs
from harness import tlc as T
from harness.core import canon
from harness.decode import rational

REJECT = (ValueError, TypeError, NotImplementedError)
TAG = "c09"


def build(tree, S, protos):
    """Real composite for an abstract tree; every user-facing prototype object is appended to protos."""
    from sktime.forecasting.compose import (EnsembleForecaster, TransformedTargetForecaster,
                                            MultiplexForecaster, StackingForecaster)
    Leaf, Tag, SkipTag, Meta, NoUpd = S
    k = tree["kind"]
    if k == "leaf":
        f = Leaf(id=tree["id"])
        protos.append(f)
        return f
    kids = [build(t, S, protos) for t in tree["kids"]]
    if k == "ens":
        return EnsembleForecaster([("m%d" % i, f) for i, f in enumerate(kids)], aggfunc=tree["agg"])
    if k == "pipe":
        ts = []
        for i, t in enumerate(tree["ts"]):
            tr = (SkipTag if t >= 7 else NoUpd if t in (4, 5) else Tag)(k=t)
            protos.append(tr)
            ts.append(("t%d" % i, tr))
        return TransformedTargetForecaster(ts + [("f", kids[0])])
    if k == "mux":
        return MultiplexForecaster([("m%d" % i, f) for i, f in enumerate(kids)],
                                   selected_forecaster="m%d" % (tree["sel"] - 1))
    if k == "online":
        from sktime.forecasting.online_learning._online_ensemble import OnlineEnsembleForecaster
        return OnlineEnsembleForecaster([("m%d" % i, f) for i, f in enumerate(kids)],
                                        ensemble_algorithm=stubs.C09WeightAlgorithm(len(kids)))
    if k == "stack":
        meta = Meta(tag="c09meta")        # the caller's regressor object is a prototype too: the stacker trains a copy
        protos.append(meta)
        return StackingForecaster([("m%d" % i, f) for i, f in enumerate(kids)], final_regressor=meta)
    raise AssertionError(k)


def yser(lo, hi):
    o = stubs.C09_ORIGIN[0]         # integer labels need not start at 0: the composites work by position
    return pd.Series([1000.0 + t for t in range(lo, hi + 1)], index=pd.RangeIndex(lo + o, hi + 1 + o))


def norm_events(log):
    out = []
    for e in log:
        out.append({"ev": e["ev"], "who": e["who"], "rep": list(e.get("rep", [])), "lo": e["lo"], "hi": e["hi"],
                    "upd": bool(e.get("upd", False)), "x": e.get("x", []), "y": e.get("y", [])})
    return out


def observe(cfg, variant=0):
    S = stubs.make_compose_stubs()
    stubs.reset(TAG)
    stubs.reset("c09meta")
    stubs.C09_ORIGIN[0] = [0, 12, -5][variant % 3]
    protos = []
    try:
        f = build(cfg["tree"], S, protos)
        n, fh = cfg["n"], list(cfg["fh"])
        fharg = fh if variant % 2 == 0 else np.array(fh)
        f.fit(yser(0, n - 1), fh=fharg)
        if cfg.get("resel", 0):
            f.set_params(selected_forecaster="m%d" % (cfg["resel"] - 1))
            f.fit(yser(0, n - 1), fh=fharg)
        for u in cfg["ups"]:
            if u["upd"] and variant % 2 and cfg["tree"]["kind"] != "online":
                # parameter updating is the default, of composites and members alike (the online ensemble's own, documented
                # default is False: it is always given the argument)
                f.update(yser(u["lo"], u["hi"]))
            else:
                f.update(yser(u["lo"], u["hi"]), update_params=bool(u["upd"]))
        p = f.predict()
        events = norm_events(stubs.LOG[TAG])
        ret = [rational(float(v)) or [] for v in p.values]
        o = {"events": events, "ret": ret, "index": [int(i) - stubs.C09_ORIGIN[0] for i in p.index],
             "protos_unfitted": all(not getattr(x, "_is_fitted", False) and not hasattr(x, "n_outputs_") for x in protos)}
        # independence: a second composite built from the SAME prototype objects, fitted on other data,
        # must not disturb the first one
        saved = list(stubs.LOG[TAG])
        g = build_shared(cfg["tree"], S, protos)
        g.fit(yser(0, n + 2), fh=fharg)
        p2 = f.predict()
        stubs.LOG[TAG] = saved
        o["independent"] = bool(list(p2.index) == list(p.index) and np.array_equal(p2.values, p.values))
        # a multiplexer answers like its selected member also for prediction intervals at a non-default level
        o["alpha_ok"] = True
        if cfg["tree"]["kind"] == "mux":
            sel = (cfg.get("resel") or cfg["tree"]["sel"]) - 1
            if cfg["tree"]["kids"][sel]["kind"] == "leaf":
                yp, pi = f.predict(return_pred_int=True, alpha=0.25)
                o["alpha_ok"] = bool(np.array_equal(yp.values, p.values) and np.allclose(pi["upper"].values - yp.values, 250.0)
                                     and np.allclose(yp.values - pi["lower"].values, 250.0))
            stubs.LOG[TAG] = saved
        return o
    except Exception as e:
        import traceback
        return {"crash": type(e).__name__ + ": " + str(e)[:160] + " @ " + traceback.format_exc().splitlines()[-3].strip()[:100]}


def build_shared(tree, S, protos):
    """Second composite re-using the prototype objects of the first (same traversal order)."""
    it = iter(list(protos))

    class Shared:
        pass
    Leaf, Tag, SkipTag, Meta, NoUpd = S

    def leaf_factory(id=1):
        return next(it)

    def tag_factory(k=1):
        return next(it)
    def meta_factory(tag=None):
        return next(it)
    return build(tree, (leaf_factory, tag_factory, tag_factory, meta_factory, tag_factory), [])


def run(ctx):
    tier = ctx.tier
    ctx.model_check("MCCompose", "MCCompose.%s.cfg" % tier, coverage=False)
    r = T.must(T.run("MCCompose", "MCCompose.%s.emit.cfg" % tier, ctx.work, workers=16), "emit")
    if not r.printed:
        raise T.TLCError("no vectors")
    ctx.notes.append("vectors emitted by TLC: %d" % len(r.printed))
    kinds = set()
    recs = []
    for i, v in enumerate(r.printed):
        cfg, exp = v["cfg"], v["exp"]
        kinds.add(cfg["tree"]["kind"])
        obs = observe(cfg, i)
        ctx.evaluations += 1
        sc = {"cfg": cfg, "variant": i % 60}
        if "crash" in obs:
            ctx.violation(sc, "crash: " + obs["crash"])
            continue
        if obs != exp:
            diff = next((k for k in exp if obs.get(k) != exp[k]), "?")
            ctx.violation(sc, "spec->code: %s differs: expected %s observed %s"
                          % (diff, canon(exp[diff])[:300], canon(obs.get(diff))[:300]))
        recs.append({"tid": i, "cfg": cfg, "obs": obs})
        ctx.nontriv(cfg)
        if i % 800 == 0:
            ctx.sample({"tree": cfg["tree"], "n": cfg["n"], "fh": cfg["fh"], "ups": cfg["ups"],
                        "expected_calls": [(e["ev"], e["who"], e["rep"], e["lo"], e["hi"]) for e in exp["events"]][:12],
                        "expected_return": exp["ret"]})
    if kinds != {"ens", "pipe", "mux", "stack", "online"}:
        raise T.TLCError("vacuity: composite kinds emitted: %s" % kinds)
    # code -> spec: the recorded runs are validated by TLC with the C09 clauses re-evaluated on them
    sub = recs if not ctx.quick else recs[::3]
    rejects, _ = ctx.judge("TraceCompose", "TraceCompose.cfg", sub)
    ctx.traces += len(sub) - len(rejects)
    for rec in sub:
        if rec["tid"] in rejects:
            ctx.violation({"cfg": rec["cfg"], "variant": rec["tid"] % 60},
                          "code->spec: TLC rejects recorded composite run, clause %s" % rejects[rec["tid"]])
    return ctx.finish(
        rule="TLC enumerates composition trees (ensembles with 4 aggregates, pipelines with 1-2 transformers "
             "incl. skip-inverse ones, multiplexers, stacking; depth 2 combinations) x series length x horizon "
             "x 0-2/3 update batches (update_params on/off) and emits every call each component must receive "
             "in order (fit/update/predict with the data's representation and time range, transformer "
             "fit/transform/update/inverse, meta-regressor fit/predict matrices) and the exact forecast; "
             "recording leaves / tagging transformers / a recording meta-regressor inside the real composites "
             "are compared call by call, prototypes must stay unfitted and a second composite sharing the "
             "prototypes must not disturb the first; recorded runs are validated by TraceCompose.tla. "
             "Non-trivial = every scenario; distinct by (tree, scenario).",
        assumptions=["compat shim", "stub leaves / transformers derive from the repo's base classes and are treated like any other",
                     "composition depth <= 2"])


def replay(ctx, doc):
    sc = doc["scenario"]
    obs = observe(sc["cfg"], sc.get("variant", 0))
    print("observed:", canon(obs)[:3000])
    if "crash" in obs:
        print("VIOLATION property=C09 replay=%s" % ctx.replay)
        return 1
    rejects, _ = ctx.judge("TraceCompose", "TraceCompose.cfg", [{"tid": 0, "cfg": sc["cfg"], "obs": obs}])
    if rejects:
        print("VIOLATION property=C09 replay=%s" % ctx.replay)
        return 1
    print("replay accepted")
    return 0
