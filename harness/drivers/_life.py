"""Shared driver code for C03 and C10 (Forecaster.tla)."""
import json
import math

from harness import tlc as T
from harness import lifecycle as LC
from harness.core import canon, h8


def behaviours(ctx, cfg, num, depth, seed):
    r = T.run("MCForecaster", cfg, ctx.work, workers=1, timeout=900,
              extra=["-simulate", "num=%d" % num, "-depth", str(depth), "-seed", str(seed + 1)])
    T.must(r, "simulate " + cfg)
    seen, out = set(), []
    for v in r.printed:
        k = canon(v)
        if k not in seen:
            seen.add(k)
            out.append(v)
    if not out:
        raise T.TLCError("no behaviours emitted by " + cfg)
    return out


def _finite(vals):
    return all(not (math.isnan(x) or math.isinf(x)) for x in vals)


def check_c03(ctx, entry, beh, origin, index_kind, fhvariant):
    """Clauses of C03 on one behaviour. Returns list of (clause, detail)."""
    hist = beh["hist"]
    obs, _ = LC.run_history(entry["factory"], hist, origin, index_kind, fhvariant=fhvariant, exog=entry.get("exog", False))
    base = None
    bad = []
    for k, (step, o) in enumerate(zip(hist, obs)):
        exp = step["exp"]
        if "crash" in o:
            bad.append(("NoCrashOnValidCall", "step %d %s: %s" % (k, step["op"], o["crash"])))
            break
        if o["rej"] != exp["rej"]:
            bad.append(("RejectedOrAccepted", "step %d %s: expected rej=%s observed %s"
                        % (k, step["op"], exp["rej"], canon(o)[:200])))
            break
        if o["fitted"] != exp["fitted"]:
            bad.append(("FittedFlag", "step %d %s" % (k, step["op"])))
        if exp["fitted"] and o["cutoff"] != exp["cutoff"]:
            bad.append(("CutoffIsLastGiven", "step %d %s: expected cutoff %s observed %s"
                        % (k, step["op"], exp["cutoff"], o["cutoff"])))
        if exp["rej"]:
            continue
        if step["op"] in ("fit", "update") and o.get("self") is False:
            bad.append(("ReturnsSelf", "step %d %s" % (k, step["op"])))
        if step["op"] in ("predict", "ups"):
            if o["times"] != exp["times"]:
                bad.append(("PredictIndex", "step %d: expected index %s observed %s"
                            % (k, exp["times"], o["times"])))
            if len(o["vals"]) != len(exp["times"]):
                bad.append(("OneValuePerStep", "step %d" % k))
            elif not _finite(o["vals"]):
                bad.append(("Finite", "step %d: %s" % (k, o["vals"])))
    if origin != 0 and not bad:
        obs0, _ = LC.run_history(entry["factory"], hist, 0, index_kind, fhvariant=fhvariant, exog=entry.get("exog", False))
        for k, (o, o0) in enumerate(zip(obs, obs0)):
            if "vals" in o and "vals" in o0:
                if o["times"] != o0["times"] or not LC.close(o["vals"], o0["vals"]):
                    bad.append(("ShiftEquivariance", "step %d: origin %d gives %s/%s, origin 0 gives %s/%s"
                                % (k, origin, o["times"], o["vals"], o0["times"], o0["vals"])))
                    break
    return bad, obs


def check_c10(ctx, entry, beh, origin, index_kind, fhvariant):
    hist = beh["hist"]
    obs, _ = LC.run_history(entry["factory"], hist, origin, index_kind, want_ref=True, fhvariant=fhvariant, exog=entry.get("exog", False))
    bad = []
    refit_since_fit = False
    fit_fh = {"steps": [], "rel": True}
    for k, (step, o) in enumerate(zip(hist, obs)):
        exp = step["exp"]
        if "crash" in o:
            bad.append(("NoCrashOnValidCall", "step %d %s: %s" % (k, step["op"], o["crash"])))
            break
        if o["rej"] != exp["rej"]:
            bad.append(("RejectedOrAccepted", "step %d %s: expected rej=%s observed %s"
                        % (k, step["op"], exp["rej"], canon(o)[:200])))
            break
        if exp["rej"]:
            if o["fitted"] != exp["fitted"] or (exp["fitted"] and o["cutoff"] != exp["cutoff"]):
                bad.append(("RejectedCallChangesNothing", "step %d" % k))
            continue
        if step["op"] == "fit":
            refit_since_fit = False
            fit_fh = step["fh"]
        if step["op"] in ("update", "ups", "upd_predict") and step["upd"]:
            refit_since_fit = True
        if step["op"] in ("update", "ups") and o["cutoff"] != exp["cutoff"]:
            bad.append(("CutoffMovesWithUpdate", "step %d: expected %s observed %s"
                        % (k, exp["cutoff"], o["cutoff"])))
        if step["op"] == "upd_predict":
            got = [{"cut": c["cut"], "times": c["times"]} for c in o["cells"]]
            want = [{"cut": c["cut"], "times": c["times"]} for c in exp["cells"]]
            if got != want:
                bad.append(("UpdatePredictLabelledByCutoffs", "step %d: expected %s observed %s"
                            % (k, canon(want)[:200], canon(got)[:200])))
            elif "ref" in o:
                for c, r in zip(o["cells"], o["ref"]):
                    if c["times"] != r["times"] or not LC.close(c["vals"], r["vals"]):
                        bad.append(("UpdatePredictEqualsSequence",
                                    "step %d cutoff %s: update_predict %s, update;predict %s"
                                    % (k, c["cut"], c["vals"], r["vals"])))
                        break
            if o["cutoff"] != exp["cutoff"]:
                bad.append(("CutoffRestored", "step %d: expected %s observed %s"
                            % (k, exp["cutoff"], o["cutoff"])))
        if step["op"] in ("predict", "ups") and entry.get("closed") == "last":
            # naive last-value forecaster: the forecast IS the remembered observation at the cutoff
            want = [LC.value(exp["cutoff"], exp["cutver"])] * len(exp["times"])
            if not LC.close(want, o["vals"]):
                bad.append(("ForecastFromCutoffObservation",
                            "step %d %s: expected the value remembered at cutoff %d (version %d) = %s, got %s"
                            % (k, step["op"], exp["cutoff"], exp["cutver"], want, o["vals"])))
        if step["op"] in ("predict", "ups") and exp["twinok"] and (entry["refit"] or not refit_since_fit):
            eff = exp["sfh"]
            ffh = fit_fh if entry["mode"] == "req" else {"steps": [], "rel": True}
            try:
                tt, tv = LC.twin_predict(entry["factory"], step, ffh, eff, origin, index_kind, exog=entry.get("exog", False))
            except Exception as e:  # the canonical history must itself be valid
                bad.append(("TwinHistoryRuns", "step %d: %s %s" % (k, type(e).__name__, str(e)[:100])))
                continue
            if tt != o["times"] or not LC.close(tv, o["vals"]):
                bad.append(("EquivalentToHavingObserved",
                            "step %d %s: forecaster gives %s, fresh fit(epoch)+update(rest) gives %s"
                            % (k, step["op"], o["vals"], tv)))
    return bad, obs


def trace_events(tid, mode, hist, obs):
    """ndjson events for TraceForecaster from an executed history."""
    ev = []
    for i, (step, o) in enumerate(zip(hist, obs)):
        if "crash" in o:
            break
        ob = {"rej": bool(o["rej"]), "fitted": bool(o["fitted"]), "cutoff": int(o["cutoff"]),
              "times": o.get("times", []),
              "cells": [{"cut": c["cut"], "times": c["times"]} for c in o.get("cells", [])]}
        ev.append({"tid": tid, "i": i + 1, "mode": mode, "op": step["op"], "lo": step["lo"],
                   "hi": step["hi"], "upd": bool(step["upd"]), "fh": step["fh"], "cv": step["cv"],
                   "obs": ob})
    return ev


NOCV = {"kind": "none", "fh": [1], "wl": 1, "sl": 1, "sww": True}
NOFH = {"steps": [], "rel": True}


def random_history(rng, mode, with_upd_predict, nmax, depth):
    """A random call sequence that respects the guards of MCForecaster.tla, generated from
    locally tracked scalars only (cutoff, extent of data, what horizon is stored); the
    specification alone decides what must be observed after each call."""
    hist = []
    fitted, cutoff, tmax = False, -1, -1
    sf = None        # stored horizon: None | ("rel", steps) | ("abs", times)
    mknown = False   # components know the horizon (given in fit, or a predict happened)
    ver = 0
    fhs = [[1], [1, 2, 3], [2, 5], [1, 4], [3]]

    def usable(c):   # stored horizon lies strictly after cutoff c
        return sf is not None and (sf[0] == "rel" or min(sf[1]) > c)

    def pick(c):
        s = rng.choice(fhs)
        if mode == "req":
            return None
        if rng.random() < 0.55:
            return {"steps": s, "rel": True}
        return {"steps": [c + x for x in s], "rel": False}

    tries = 0
    while len(hist) < depth and tries < 200:
        tries += 1
        ops = ["fit"] if not fitted else ["update", "update", "predict", "predict", "ups"] + \
            (["upd_predict"] if with_upd_predict else []) + (["fit"] if rng.random() < 0.1 else [])
        op = rng.choice(ops)
        step = {"op": op, "lo": 0, "hi": 0, "ver": ver + 1, "upd": False, "fh": NOFH, "cv": NOCV,
                "exp": {"rej": False, "cells": []}}
        if op == "fit":
            hi = rng.randint(8, 14)
            if fitted:
                if mode == "req":
                    fh = {"steps": list(sf[1]), "rel": True}
                else:
                    fh = {"steps": rng.choice(fhs), "rel": True}
            else:
                fh = NOFH if (mode == "opt" and rng.random() < 0.5) else {"steps": rng.choice(fhs), "rel": True}
            step.update(hi=hi, fh=fh)
            fitted, cutoff, tmax = True, hi, hi
            if fh["steps"]:
                sf = ("rel", fh["steps"])
            mknown = bool(fh["steps"])
            ver += 1
        elif op in ("update", "ups"):
            if tmax >= nmax - 1 or cutoff != tmax:
                continue
            lo = max(0, cutoff + 1 - rng.choice([0, 0, 1, 2]))
            hi = rng.randint(tmax, min(nmax - 1, tmax + 6))
            if hi < lo:
                continue
            upd = rng.random() < 0.5 and sf is not None and mknown
            step.update(lo=lo, hi=hi, upd=upd)
            if op == "ups":
                fh = pick(hi) if rng.random() < 0.6 else None
                if fh is None and not usable(hi):
                    continue
                if fh is not None:
                    step["fh"] = fh
                    sf = ("rel", fh["steps"]) if fh["rel"] else ("abs", fh["steps"])
                mknown = True
            cutoff = tmax = hi
            ver += 1
        elif op == "predict":
            fh = pick(cutoff) if rng.random() < 0.6 else None
            if fh is None and not usable(cutoff):
                continue
            if fh is not None:
                step["fh"] = fh
                sf = ("rel", fh["steps"]) if fh["rel"] else ("abs", fh["steps"])
            mknown = True
        elif op == "upd_predict":
            if sf is None or sf[0] != "rel" or not mknown or cutoff != tmax or tmax >= nmax - 3:
                continue
            hi = rng.randint(cutoff + 2, min(nmax - 1, cutoff + 7))
            wl, sl = rng.randint(1, 3), rng.randint(1, 3)
            kind = rng.choice(["sliding", "expanding"])
            if kind == "sliding" and sl > wl:
                sl = wl
            step.update(lo=cutoff + 1, hi=hi, upd=rng.random() < 0.4,
                        cv={"kind": kind, "fh": list(sf[1]), "wl": wl, "sl": sl, "sww": rng.random() < 0.5})
            hist.append(step)
            break  # the merged extent afterwards depends on the windows: end the history here
        hist.append(step)
    return hist
