"""C15 -- panel container conversions are lossless and mutually consistent. Spec: spec/Containers.tla."""
import warnings

import numpy as np
import pandas as pd

from harness import tlc as T
from harness.core import canon


def name_of(rank):
    return "var_%d" % (rank - 101) if rank > 100 else chr(96 + rank) + "x"


def rank_of(name):
    s = str(name)
    if s.startswith("var_"):
        return 101 + int(s[4:])
    if s == "0":
        return 101          # from_2d_array_to_nested names its single column 0
    return ord(s[0]) - 96


def tlabels(i, t, trev, tshift):
    return list(range(t - 1, -1, -1)) if trev else list(range(i, i + t)) if tshift else list(range(t))


def make(rep, ranks, n, t, ishuf=False, trev=False, tshift=False):
    cols = {}
    for j, r in enumerate(ranks):
        col = []
        for i in range(n):
            v = np.array([1000.0 * i + 100 * j + k for k in range(t)])
            if rep == "ns":
                col.append(pd.Series(v, index=tlabels(i, t, trev, tshift) if (trev or tshift) else None))
            else:
                col.append(v)
        cols[name_of(r)] = col
    df = pd.DataFrame(cols)
    if ishuf:   # instance labels that are not ascending: [n-1, 0, n-2, 1, ...]
        lab = []
        lo, hi = 0, n - 1
        while lo <= hi:
            lab.append(hi)
            if lo != hi:
                lab.append(lo)
            lo, hi = lo + 1, hi - 1
        df.index = lab
    return df


LONG_NAMES = [("case_id", "reading_id", "dim_id"), ("inst", "tp", "var"), (None, None, None)]
LONG_UNNAMED = ("index", "time_index", "column")      # headers of a long table made without any name
LONG_CALLS = [0]
MI_CALLS = [0]
NP_CALLS = [0]


def long_names(obj):
    return obj.attrs.get("c15names", LONG_NAMES[0])


def convert(obj, frm, to):
    from sktime.utils import data_processing as D
    if frm in ("ns", "na") and to == "np3":
        return D.from_nested_to_3d_numpy(obj)
    # "np3n": a 3-d array whose owner kept the column names and passes them on as column_names
    if frm in ("ns", "na") and to == "np3n":
        return (D.from_nested_to_3d_numpy(obj), list(obj.columns))
    if frm == "mi" and to == "np3n":
        return (D.from_multi_index_to_3d_numpy(obj, instance_index=obj.index.names[0], time_index=obj.index.names[1]),
                list(obj.columns))
    if frm == "np3n" and to in ("ns", "na"):
        return D.from_3d_numpy_to_nested(obj[0], column_names=obj[1], cells_as_numpy=(to == "na"))
    if frm == "np3n" and to == "mi":
        return D.from_3d_numpy_to_multi_index(obj[0], instance_index="inst", time_index="tp", column_names=obj[1])
    if frm == "np3" and to in ("ns", "na"):
        return D.from_3d_numpy_to_nested(obj, cells_as_numpy=(to == "na"))
    if frm in ("ns", "na") and to == "mi":
        MI_CALLS[0] += 1
        if MI_CALLS[0] % 2:
            # the frame is a row selection of a larger one (train / test split): its index levels still list the
            # instance that was selected away
            extra = obj.iloc[[0]].copy()
            extra.index = [int(max(obj.index)) + 1]
            big = D.from_nested_to_multi_index(pd.concat([obj, extra]), instance_index="inst", time_index="tp")
            return big.loc[list(obj.index)]
        return D.from_nested_to_multi_index(obj, instance_index="inst", time_index="tp")
    if frm == "mi" and to in ("ns", "na"):
        MI_CALLS[0] += 1
        if MI_CALLS[0] % 3 == 0:
            # rows in arrival order (time point by time point) rather than grouped by instance: the conversion selects
            # the rows of each instance, so the order of the rows across instances does not matter
            insts = list(dict.fromkeys(obj.index.get_level_values(0)))
            t = len(obj) // max(1, len(insts))
            obj = obj.iloc[[i * t + k for k in range(t) for i in range(len(insts))]]
        if to == "na":
            return D.from_multi_index_to_nested(obj, instance_index=obj.index.names[0], cells_as_numpy=True)
        return D.from_multi_index_to_nested(obj, instance_index=obj.index.names[0])
    if frm == "mi" and to == "np3":
        return D.from_multi_index_to_3d_numpy(obj, instance_index=obj.index.names[0], time_index=obj.index.names[1])
    if frm == "np3" and to == "mi":
        # the level names asked for are the ones the frame gets, each on its own (defaults: instances, timepoints)
        NP_CALLS[0] += 1
        kw = [dict(instance_index="inst", time_index="tp"), dict(instance_index="inst"), dict(time_index="tp"), dict()][NP_CALLS[0] % 4]
        out = D.from_3d_numpy_to_multi_index(obj, **kw)
        want = [kw.get("instance_index", "instances"), kw.get("time_index", "timepoints")]
        if list(out.index.names) != want:
            raise AssertionError("LevelNames: from_3d_numpy_to_multi_index(%s) names its index levels %s, not %s"
                                 % (", ".join("%s=%r" % kv for kv in kw.items()), list(out.index.names), want))
        return out
    if frm in ("ns", "na") and to == "long":
        # the default column names and user-chosen ones alternate
        LONG_CALLS[0] += 1
        names = LONG_NAMES[LONG_CALLS[0] % 3]
        out = D.from_nested_to_long(obj, *names) if names[0] else D.from_nested_to_long(obj)
        out.attrs["c15names"] = names if names[0] else LONG_UNNAMED
        return out
    if frm == "long" and to == "ns":
        a, b, c = long_names(obj)
        if (a, b, c) == LONG_NAMES[0]:
            return D.from_long_to_nested(obj)
        return D.from_long_to_nested(obj, instance_column_name=a, time_column_name=b, dimension_column_name=c)
    if frm == "ns" and to == "t2":
        return D.from_nested_to_2d_array(obj)
    if frm == "np3" and to == "t2":
        return D.from_3d_numpy_to_2d_array(obj)
    if frm == "t2" and to == "ns":
        return D.from_2d_array_to_nested(obj)
    raise AssertionError((frm, to))


def read(obj, rep, cfg):
    """Canonical reading of any representation: shape, names, tokens (instance, variable as it appears, time)."""
    from sktime.utils.data_processing import is_nested_dataframe
    n, k, t = cfg["n"], len(cfg["names"]), cfg["t"]
    nested = bool(isinstance(obj, pd.DataFrame) and is_nested_dataframe(obj))
    if rep in ("ns", "na"):
        names = [rank_of(c) for c in obj.columns]
        want = pd.Series if rep == "ns" else np.ndarray
        cells_ok = all(isinstance(obj.iloc[i, j], want) for i in range(obj.shape[0]) for j in range(obj.shape[1]))
        toks = [float(v) for i in range(obj.shape[0]) for j in range(obj.shape[1]) for v in np.asarray(obj.iloc[i, j])]
        shape = [obj.shape[0], obj.shape[1], len(np.asarray(obj.iloc[0, 0]))]
        if not cells_ok:
            rep = rep + "?"
    elif rep == "np3n":
        names = [rank_of(c) for c in obj[1]]
        toks = [float(v) for v in np.asarray(obj[0]).ravel()]
        shape = list(obj[0].shape)
    elif rep == "np3":
        names = []
        toks = [float(v) for v in np.asarray(obj).ravel()]
        shape = list(obj.shape)
    elif rep == "mi":
        names = [rank_of(c) for c in obj.columns]
        insts = list(dict.fromkeys(obj.index.get_level_values(0)))
        toks = []
        for i in insts:
            sub = obj.xs(i, level=0)
            for c in obj.columns:
                toks += [float(v) for v in sub[c].values]
        shape = [len(insts), obj.shape[1], len(obj) // max(1, len(insts))]
    elif rep == "long":
        case_id, _, dim_id = long_names(obj)
        ids = list(dict.fromkeys(obj[dim_id]))
        names = [rank_of(c) for c in ids]
        insts = list(dict.fromkeys(obj[case_id]))
        toks = []
        for i in insts:
            for c in ids:
                sub = obj[(obj[case_id] == i) & (obj[dim_id] == c)]
                toks += [float(v) for v in sub["value"].values]
        shape = [len(insts), len(ids), len(obj) // max(1, len(insts) * len(ids))]
    elif rep == "t2":
        names = []
        a = np.asarray(obj, dtype=float)
        toks = [float(v) for v in a.ravel()]
        shape = [a.shape[0], 1, a.shape[1]]
    # time labels: those of the original cells, or 0..t-1
    tl = "default"
    special = bool(cfg.get("trev") or cfg.get("tshift"))
    labs = None
    try:
        if rep == "ns":
            labs = [[int(x) for x in obj.iloc[i, 0].index] for i in range(obj.shape[0])]
        elif rep == "mi":
            labs = [[int(x) for x in obj.xs(i, level=0).index] for i in list(dict.fromkeys(obj.index.get_level_values(0)))]
    except Exception:
        labs = "?"
    if labs is not None:
        orig = [tlabels(i, t, cfg.get("trev"), cfg.get("tshift")) for i in range(len(labs))] if labs != "?" else None
        dflt = [list(range(t)) for _ in range(len(labs))] if labs != "?" else None
        tl = "orig" if (special and labs == orig) else "default" if labs == dflt else "other"
    return {"rep": rep, "shape": shape, "names": names, "tokens": [int(round(v)) for v in toks], "nested": nested, "tl": tl}


def observe(cfg):
    warnings.filterwarnings("ignore")
    try:
        obj = make(cfg["from"], cfg["names"], cfg["n"], cfg["t"], cfg.get("ishuf", False), cfg.get("trev", False),
                   cfg.get("tshift", False))
        cur = cfg["from"]
        for to in cfg["path"]:
            obj = convert(obj, cur, to)
            cur = to
        o = read(obj, cur, cfg)
        if cur == "long":
            # identifiers of the long table are compared as the names it carries
            pass
        return o
    except Exception as e:
        import traceback
        return {"crash": type(e).__name__ + ": " + str(e)[:140] + " @ " + traceback.format_exc().splitlines()[-3].strip()[:100]}


def bigint_roundtrip():
    """nested -> long -> nested keeps integer values exactly (also beyond 2**53, where float64 has gaps)."""
    from sktime.utils import data_processing as D
    big = 2 ** 53 + 1
    X = pd.DataFrame({"a": [pd.Series(np.array([big, big + 2, big + 4], dtype="int64")), pd.Series(np.array([big + 6, 7, -big], dtype="int64"))]})
    back = D.from_long_to_nested(D.from_nested_to_long(X, "case_id", "reading_id", "dim_id"))
    want = [[big, big + 2, big + 4], [big + 6, 7, -big]]
    got = [[int(v) for v in back.iloc[i, 0].values] for i in range(2)]
    return got == want, got


def flat(n, order, t):
    return [1000 * i + 100 * (c - 1) + k for i in range(n) for c in order for k in range(t)]


def run(ctx):
    tier = ctx.tier
    ctx.model_check("MCContainers", "MCContainers.%s.cfg" % tier, coverage=False)
    r = T.must(T.run("MCContainers", "MCContainers.%s.emit.cfg" % tier, ctx.work, workers=16), "emit")
    if not r.printed:
        raise T.TLCError("no vectors")
    ctx.notes.append("paths emitted by TLC: %d" % len(r.printed))
    recs = []
    mats = [v for v in r.printed if "mat" in v]
    r.printed = [v for v in r.printed if "cfg" in v]
    if len(mats) < 20:
        raise T.TLCError("nestedness matrices not emitted")
    from sktime.utils.data_processing import are_columns_nested, is_nested_dataframe
    for v in mats:
        for kind in ("series", "array"):
            m = v["mat"]
            df = pd.DataFrame({"c%d" % j: pd.Series([(pd.Series([1.0, 2.0]) if kind == "series" else np.array([1.0, 2.0]))
                                                       if m[i][j] else 3.5 for i in range(len(m))], dtype=object)
                               for j in range(len(m[0]))})
            ctx.evaluations += 1
            try:
                got = ([bool(x) for x in are_columns_nested(df)], bool(is_nested_dataframe(df)))
            except Exception as e:
                got = ("crash", type(e).__name__)
            if got != (v["cols"], v["frame"]):
                ctx.violation({"nestedness": m, "cells": kind},
                              "NestednessPredicates: cell-type matrix %s (%s cells): expected columns %s frame %s, got %s"
                              % (m, kind, v["cols"], v["frame"], got))
    ctx.evaluations += 1
    try:
        ok, got = bigint_roundtrip()
        if not ok:
            ctx.violation({"bigint": True}, "ValuesReturnedExactly: nested -> long -> nested of int64 values around 2**53 returned %s" % got)
    except Exception as e:
        ctx.violation({"bigint": True}, "crash: nested -> long -> nested of an int64 panel: %s %s" % (type(e).__name__, str(e)[:100]))
    for i, v in enumerate(r.printed):
        cfg, exp = v["cfg"], v["exp"]
        obs = observe(cfg)
        ctx.evaluations += 1
        sc = {"cfg": cfg}
        if "crash" in obs:
            ctx.violation(sc, "crash: " + obs["crash"])
            continue
        want = {"rep": exp["rep"], "shape": [cfg["n"], len(cfg["names"]), cfg["t"]], "names": exp["names"],
                "tokens": flat(cfg["n"], exp["order"], cfg["t"]), "nested": exp["rep"] in ("ns", "na"),
                "tl": exp["tl"] if exp["rep"] in ("ns", "mi") else "default"}
        if obs != want:
            k = next(x for x in want if obs.get(x) != want[x])
            ctx.violation(sc, "spec->code: %s after %s->%s: expected %s observed %s"
                          % (k, cfg["from"], "->".join(cfg["path"]), canon(want[k])[:200], canon(obs.get(k))[:200]))
        recs.append({"tid": i, "cfg": cfg, "obs": obs})
        if len(cfg["path"]) > 1:
            ctx.nontriv(cfg)
        if i % 1500 == 0:
            ctx.sample({"cfg": cfg, "expected": exp})
    sub = recs if not ctx.quick else recs[::2]
    rejects, _ = ctx.judge("TraceContainers", "TraceContainers.cfg", sub)
    ctx.traces += len(sub) - len(rejects)
    for rec in sub:
        if rec["tid"] in rejects:
            ctx.violation({"cfg": rec["cfg"]}, "code->spec: TLC rejects conversion path %s->%s: %s"
                          % (rec["cfg"]["from"], "->".join(rec["cfg"]["path"]), rejects[rec["tid"]]))
    return ctx.finish(
        rule="TLC enumerates every conversion path of length <= 3 (4 in thorough) over the conversion graph "
             "(nested with Series / array cells, 3-D array, multi-index frame, long table, 2-D table) from panels "
             "with 1-3 instances, 1-3 variables (sorted, unsorted and default names), 2-4 time points and checks order "
             "preservation, name preservation along name-carrying paths, path independence and the long table's "
             "ordering by identifier on the specification; every path is executed with the real conversion "
             "functions on token panels and the final container is read back canonically (shape, names, every "
             "value in instance / variable / time order, nestedness predicate) and compared; recorded results are "
             "validated by TraceContainers.tla. Non-trivial = path of length >= 2.",
        assumptions=["compat shim", "token values 1000*i + 100*c + t identify instance, variable and time of every cell"])


def replay(ctx, doc):
    sc = doc["scenario"]
    if "nestedness" in sc:
        return run(ctx)
    obs = observe(sc["cfg"])
    print("observed:", canon(obs)[:1500])
    if "crash" in obs:
        print("VIOLATION property=C15 replay=%s" % ctx.replay)
        return 1
    rejects, _ = ctx.judge("TraceContainers", "TraceContainers.cfg", [{"tid": 0, "cfg": sc["cfg"], "obs": obs}])
    if rejects:
        print("VIOLATION property=C15 replay=%s" % ctx.replay)
        return 1
    print("replay accepted")
    return 0
