"""C14 -- closed-form transformers compute exactly the function they document.
Spec: spec/PanelTransf.tla over spec/Num.tla."""
import warnings

import numpy as np
import pandas as pd

from harness import tlc as T
from harness.core import canon
from harness.decode import rational

MISS = 99


def nested(X, cells):
    ncol = len(X[0])
    cols = {}
    for c in range(ncol):
        col = []
        for inst in X:
            v = np.array([np.nan if x == MISS else float(x) for x in inst[c]])
            # "series_off": cells whose own time index does not start at 0 (positions, not labels, are what counts)
            col.append(pd.Series(v) if cells == "series" else pd.Series(v, index=np.arange(2, 2 + len(v))) if cells == "series_off" else v)
        cols["c%d" % c] = col
    return pd.DataFrame(cols)


def cell_vals(c, pow_=1):
    v = np.asarray(c.values if hasattr(c, "values") else c, dtype=float).ravel()
    return [rational(float(x) ** pow_) or [] for x in v]


def frame_out(df):
    return [[cell_vals(df.iloc[i, j]) for j in range(df.shape[1])] for i in range(df.shape[0])]


def observe(case, variant=0):
    warnings.filterwarnings("ignore")
    op, p, X = case["op"], case["p"], case["X"]
    cells = ["series", "array", "series_off"][variant % 3]

    def mk(cls, params, other):
        # every fifth case: built with other parameters and re-parameterised with set_params
        if variant % 5 == 4:
            return cls(**other).set_params(**params)
        return cls(**params)
    try:
        if op in ("impute", "acf", "minmax"):
            s = pd.Series([np.nan if x == MISS else float(x) for x in X[0][0]],
                          index=pd.RangeIndex(variant % 3, variant % 3 + len(X[0][0])))
            if op == "impute":
                from sktime.transformations.series.impute import Imputer
                kw = {"value": float(p["const"])} if p["method"] == "constant" else {}
                out = Imputer(method=p["method"], **kw).fit_transform(s)
            elif op == "acf":
                from sktime.transformations.series.acf import AutoCorrelationTransformer
                out = AutoCorrelationTransformer(n_lags=p["k"], adjusted=bool(p.get("adj"))).fit_transform(s)
            else:
                from sktime.transformations.series.adapt import TabularToSeriesAdaptor
                from sklearn.preprocessing import MinMaxScaler
                out = TabularToSeriesAdaptor(MinMaxScaler()).fit_transform(s)
            return [[cell_vals(out)]]
        Xn = nested(X, cells)
        fitted = lambda tr: tr.fit(Xn)      # noqa: E731
        if p.get("fit"):
            # fitted on another panel: the one to transform plus one instance of the given length
            Xfit = nested(list(X) + [[[1] * p["fit"] for _ in X[0]]], cells)
            fitted = lambda tr: tr.fit(Xfit)      # noqa: E731
        elif variant % 4 == 3 and len({len(c) for inst in X for c in inst}) == 1:
            from sktime.utils.data_processing import from_nested_to_3d_numpy
            Xn = from_nested_to_3d_numpy(Xn)
        if op == "pad":
            from sktime.transformations.panel.padder import PaddingTransformer
            if p.get("half"):      # a fractional fill value for a panel whose cells are of integer dtype
                Xn = Xn.applymap(lambda c: c.astype("int64")) if isinstance(Xn, pd.DataFrame) else Xn.astype("int64")
            out = mk(PaddingTransformer, dict(pad_length=p["L"] or None, fill_value=p["fill"] + (0.5 if p.get("half") else 0)),
                     dict(pad_length=50, fill_value=-9))
            out = fitted(out).transform(Xn) if variant % 2 or p.get("fit") else out.fit_transform(Xn)
        elif op == "truncate":
            from sktime.transformations.panel.truncation import TruncationTransformer
            out = mk(TruncationTransformer, dict(lower=(p["lo"] if (p["lo"] or p["hi"]) else None), upper=p["hi"] or None), dict(lower=1, upper=2))
            out = fitted(out).transform(Xn) if variant % 2 or p.get("fit") else out.fit_transform(Xn)
        elif op == "interpolate":
            from sktime.transformations.panel.interpolate import TSInterpolator
            out = mk(TSInterpolator, dict(length=p["L"]), dict(length=11)).fit_transform(Xn)
        elif op == "tabularize":
            from sktime.transformations.panel.reduce import Tabularizer
            out = Tabularizer().fit_transform(Xn)
            if isinstance(Xn, pd.DataFrame):
                # labels <column>__<time>, every column with its own time points
                want = ["%s__%s" % (col, t) for col in Xn.columns
                        for t in (Xn[col].iloc[0].index if hasattr(Xn[col].iloc[0], "index") else range(len(Xn[col].iloc[0])))]
                if [str(c_) for c_ in out.columns] != want:
                    raise AssertionError("TabularLabels: Tabularizer labels its columns %s, the panel's columns and time points are %s"
                                         % (list(out.columns), want))
            a = np.asarray(out, dtype=float)
            return [[[rational(float(v)) or [] for v in row]] for row in a]
        elif op == "concat":
            from sktime.transformations.panel.compose import ColumnConcatenator
            out = ColumnConcatenator().fit_transform(Xn)
        elif op == "paa":
            from sktime.transformations.panel.dictionary_based import PAA
            out = mk(PAA, dict(num_intervals=p["k"]), dict(num_intervals=1)).fit_transform(Xn)
        elif op == "intervals":
            from sktime.transformations.panel.segment import IntervalSegmenter
            if variant % 2:
                # the same intervals given explicitly as [start, end) pairs
                iv = np.array([[ix[0], ix[-1] + 1] for ix in np.array_split(np.arange(len(X[0][0])), p["k"])])
                out = mk(IntervalSegmenter, dict(intervals=iv), dict(intervals=1)).fit_transform(Xn)
            else:
                out = mk(IntervalSegmenter, dict(intervals=p["k"]), dict(intervals=1)).fit_transform(Xn)
        elif op == "sliding":
            from sktime.transformations.panel.segment import SlidingWindowSegmenter
            out = mk(SlidingWindowSegmenter, dict(window_length=p["w"]), dict(window_length=7)).fit_transform(Xn)
        elif op == "row_mean":
            from sktime.transformations.panel.compose import SeriesToPrimitivesRowTransformer
            from sklearn.preprocessing import FunctionTransformer
            if variant % 2:        # the library's own mean transformer, one value per variable
                from sktime.transformations.series.summarize import MeanTransformer
                out = SeriesToPrimitivesRowTransformer(MeanTransformer()).fit_transform(Xn)
            else:
                out = SeriesToPrimitivesRowTransformer(FunctionTransformer(np.mean, validate=False, kw_args={"axis": 0}),
                                                       check_transformer=False).fit_transform(Xn)
            a = np.asarray(out, dtype=float)
            return [[[rational(float(v)) or []] for v in row] for row in a]
        elif op == "interval_features":
            raise AssertionError("handled by observe_rife")
        return frame_out(out)
    except Exception as e:
        import traceback
        return {"crash": type(e).__name__ + ": " + str(e)[:140] + " @ " + traceback.format_exc().splitlines()[-3].strip()[:100]}


def value_range(x):
    """A feature function without an `axis` argument (applied series by series): max - min."""
    return float(np.max(x) - np.min(x))


def observe_rife(X, n_intervals, seed, cells):
    """Random-interval feature extractor: the intervals are read from the fitted object, the features are
    judged by the specification (mean, std through its square, least-squares slope)."""
    from sktime.transformations.panel.summarize import RandomIntervalFeatureExtractor
    from sktime.utils.slope_and_trend import _slope
    warnings.filterwarnings("ignore")
    Xn = nested(X, cells)
    tr = RandomIntervalFeatureExtractor(n_intervals=n_intervals, random_state=seed, features=[np.mean, np.std, _slope, value_range])
    out = tr.fit(Xn).transform(Xn)
    iv = [[int(a), int(b)] for a, b in tr.intervals_]
    a = np.asarray(out, dtype=float)
    k = len(iv)
    # documented labels <start>_<end>_<function>, feature-major like the values
    want = ["%d_%d_%s" % (a_, b_, f.__name__) for f in (np.mean, np.std, _slope, value_range) for a_, b_ in iv]
    if [str(c) for c in out.columns] != want:
        raise AssertionError("column labels %s do not name the columns' contents %s" % (list(out.columns)[:6], want[:6]))
    rows = []
    for row in a:
        cell = [rational(float(v)) or [] for v in row[:k]] + [rational(float(v) ** 2) or [] for v in row[k:2 * k]] + \
               [rational(float(v)) or [] for v in row[2 * k:3 * k]] + [rational(float(v)) or [] for v in row[3 * k:]]
        rows.append([cell])
    return iv, rows


def val(i, c, t, salt):
    return ((7 * i + 3 * c + 5 * t * t + t + 4 * salt * (t + i)) % 11) - 3


NOP = {"L": 0, "fill": 0, "lo": 0, "hi": 0, "k": 1, "w": 1, "method": "", "const": 0, "iv": [], "fit": 0, "half": 0, "adj": 0}


def random_case(rng):
    op = rng.choice(["pad", "truncate", "interpolate", "tabularize", "concat", "paa", "intervals", "sliding",
                     "row_mean", "impute", "acf", "minmax", "interval_features"])
    salt = rng.randint(0, 9)
    p = dict(NOP)
    n = rng.randint(1, 4)
    nc = rng.choice([1, 2]) if op in ("pad", "truncate", "interpolate", "tabularize", "concat", "row_mean") else 1
    if op in ("pad", "truncate", "interpolate"):
        lens = [rng.randint(3, 9) for _ in range(n)]
    else:
        L = rng.randint(5, 10)
        lens = [L] * n
    if op in ("impute", "acf", "minmax"):
        lens = [lens[0]]
        n = 1
    X = [[[val(i + 1, c + 1, t + 1, salt) for t in range(lens[i])] for c in range(nc)] for i in range(n)]
    if op == "pad":
        p["L"] = rng.choice([0, max(lens), max(lens) + rng.randint(1, 4)])
        p["fill"] = rng.choice([0, -1, 5])
        p["half"] = 1 if rng.random() < 0.3 else 0
        if p["L"] == 0 and rng.random() < 0.5:
            p["fit"] = max(lens) + rng.randint(0, 3)
    elif op == "truncate":
        m = min(lens)
        if rng.random() < 0.4:
            if rng.random() < 0.5:
                p["fit"] = rng.randint(1, m)
        elif rng.random() < 0.5:
            p["lo"] = rng.randint(1, m)
        else:
            p["hi"] = rng.randint(2, m)
            p["lo"] = rng.randint(0, p["hi"] - 1)        # 0: a range that starts at the first time point
    elif op == "interpolate":
        p["L"] = rng.randint(1, 9)
    elif op == "paa":
        p["k"] = rng.randint(1, lens[0])
    elif op == "intervals":
        p["k"] = rng.randint(1, lens[0] // 2)
    elif op == "sliding":
        p["w"] = rng.randint(1, 6)
    elif op == "impute":
        p["method"] = rng.choice(["ffill", "bfill", "constant", "mean", "median", "linear", "drift"])
        p["const"] = 7
        for pos in rng.sample(range(lens[0]), rng.randint(1, min(3, lens[0] - 2))):
            X[0][0][pos] = MISS
    elif op == "acf":
        p["k"] = rng.randint(1, 3)
        p["adj"] = rng.choice([0, 1])
    if op in ("acf", "minmax") and len(set(X[0][0])) == 1:
        X[0][0][0] += 1
    return {"op": op, "p": p, "X": X}


def run(ctx):
    tier = ctx.tier
    ctx.model_check("MCPanelTransf", "MCPanelTransf.%s.cfg" % tier, coverage=False)
    r = T.must(T.run("MCPanelTransf", "MCPanelTransf.%s.emit.cfg" % tier, ctx.work, workers=16), "emit")
    if not r.printed:
        raise T.TLCError("no vectors")
    ops = set()
    ctx.notes.append("vectors emitted by TLC: %d" % len(r.printed))
    for i, v in enumerate(r.printed):
        case = v["case"]
        ops.add(case["op"])
        obs = observe(case, i)
        ctx.evaluations += 1
        sc = {"case": case, "variant": i % 60}
        if isinstance(obs, dict):
            ctx.violation(sc, "crash on valid input: " + obs["crash"])
            continue
        if obs != v["out"]:
            ctx.violation(sc, "spec->code: %s(%s) documented output %s, code returned %s"
                          % (case["op"], {k: x for k, x in case["p"].items() if x}, canon(v["out"])[:250], canon(obs)[:250]))
        ctx.nontriv(case)
        if i % 400 == 0:
            ctx.sample({"case": case, "documented_output": v["out"]})
    if len(ops) < 12:
        raise T.TLCError("vacuity: ops emitted %s" % sorted(ops))
    recs = []
    for t in range(600 if ctx.quick else 6000):
        case = random_case(ctx.rng)
        if case["op"] == "interval_features":
            try:
                iv, rows = observe_rife(case["X"], ctx.rng.randint(1, 3), t, "series" if t % 2 else "array")
            except Exception as e:
                ctx.violation({"case": case, "variant": t % 60}, "crash: %s %s" % (type(e).__name__, str(e)[:120]))
                continue
            case["p"] = dict(case["p"], iv=iv)
            obs = rows
        else:
            obs = observe(case, t)
        ctx.evaluations += 1
        if isinstance(obs, dict):
            ctx.violation({"case": case, "variant": t % 60}, "crash on valid input: " + obs["crash"])
            continue
        recs.append({"tid": t, "case": case, "obs": obs})
        ctx.nontriv(case)
    rejects, _ = ctx.judge("TracePanelTransf", "TracePanelTransf.cfg", recs, timeout=2400)
    ctx.traces += len(recs) - len(rejects)
    for rec in recs:
        if rec["tid"] in rejects:
            ctx.violation({"case": rec["case"], "variant": rec["tid"] % 60},
                          "code->spec: TLC rejects %s output %s (%s)"
                          % (rec["case"]["op"], canon(rec["obs"])[:300], rejects[rec["tid"]]))
    return ctx.finish(
        rule="TLC enumerates cases (padding, truncation, interpolation on unequal-length panels; tabularisation, "
             "column concatenation, row-wise mean; PAA with fractional frames; fixed-interval and sliding-window "
             "segmentation; imputation by ffill/bfill/constant/mean/median/linear/drift with 1-2 gaps; "
             "autocorrelation; min-max adaptor) with 1-2(3) instances, 1-2 columns, lengths 3-5 and checks row "
             "count, requested lengths, tiling, observed-values-untouched and mean preservation on the definitions; "
             "the real transformers' outputs (Series- and array-valued cells, 3-D arrays) are decoded to exact "
             "rationals and compared; random larger cases incl. random-interval mean/std/slope features (intervals "
             "read from the fitted object) are judged by TracePanelTransf.tla.",
        assumptions=["compat shim", "rational decoder", "cosine / log / Box-Cox values are outside this check (C13 checks their inverses)"])


def replay(ctx, doc):
    sc = doc["scenario"]
    obs = observe(sc["case"], sc.get("variant", 0))
    print("observed:", canon(obs)[:1500])
    if isinstance(obs, dict):
        print("VIOLATION property=C14 replay=%s" % ctx.replay)
        return 1
    rejects, _ = ctx.judge("TracePanelTransf", "TracePanelTransf.cfg", [{"tid": 0, "case": sc["case"], "obs": obs}])
    if rejects:
        print("VIOLATION property=C14 replay=%s" % ctx.replay)
        return 1
    print("replay accepted")
    return 0
