"""C12 -- applying an estimator is pure, reproducible and independent of scheduling.
Specs: spec/Purity.tla (+MCPurity, TracePurity) and spec/Parallel.tla."""
import copy
import pickle
import warnings

import numpy as np
import pandas as pd

from harness import estimators as E
from harness import scope
from harness import tlc as T
from harness.core import canon
from harness.fingerprint import fp

def efp(est):
    """Fingerprint of the estimator's public state: constructor parameters (deep), fitted flag and,
    for forecasters, the cutoff.  Lazily created fitted attributes and private caches are not part of
    the property; a change of behaviour is caught through the results of the following calls."""
    state = {"cls": type(est).__name__, "fitted": bool(getattr(est, "is_fitted", getattr(est, "_is_fitted", True)))}
    try:
        state["params"] = {k: (v if not hasattr(v, "get_params") else type(v).__name__)
                           for k, v in est.get_params(deep=True).items()}
    except Exception:
        state["params"] = {}
    if hasattr(est, "cutoff"):
        try:
            state["cutoff"] = repr(est.cutoff)
        except Exception:
            state["cutoff"] = "n/a"
    return fp(state)


PROFILE = {("predict", "predict_insample"): "pi", ("transform",): "t", ("transform", "inverse_transform"): "ti",
           ("predict", "predict_proba"): "pp", ("predict",): "p"}


def series_data(entry, seed, container="series", start=3):
    rng = np.random.RandomState(seed)
    n = 24
    t = np.arange(n)
    y = 20 + 0.5 * t + 3 * np.sin(2 * np.pi * t / 4) + rng.rand(n)
    if entry.get("missing"):
        y[5] = np.nan
        y[17] = np.nan
        y[11] = 90.0      # an outlier
        if entry.get("placeholder") is not None:
            y[5] = y[17] = entry["placeholder"]        # missing values marked by a placeholder instead of NaN
    idx = pd.RangeIndex(start, start + n)
    if (container == "frame" and entry.get("missing")) or entry.get("frame"):
        return pd.DataFrame({"a": y, "b": y[::-1].copy()}, index=idx)
    return pd.Series(y, index=idx)


def panel_data(entry, seed, container):
    ncol = E.ncol(entry)
    # classifiers / regressors get a noisy, weakly separable panel so that random choices inside matter
    noisy = entry["kind"] in ("classifier", "regressor")
    X, y = E.make_panel(16 if noisy else 10, ncol, 12 if not noisy else 24, seed, noise=6.0 if noisy else 0.5)
    if container == "numpy3d":
        from sktime.utils.data_processing import from_nested_to_3d_numpy
        X = from_nested_to_3d_numpy(X)
    return X, y


def apply_panel(entry, seed, container):
    """Unseen instances to apply a fitted classifier / regressor to (trees memorise their training data)."""
    X, _ = panel_data(entry, seed + 1000, container)
    return X


def run_scenario(entry, plan, container, seed, tid):
    """Execute plan on a real estimator; return (events, crash)."""
    warnings.filterwarnings("ignore")
    kind = entry["kind"]
    events = []

    def fresh_data():
        if kind == "series-transformer":
            return series_data(entry, seed, container), None
        if kind == "forecaster":
            return series_data({"missing": False}, seed), None
        return panel_data(entry, seed, container)
    X, y = fresh_data()
    Xa = apply_panel(entry, seed, container) if kind in ("classifier", "regressor") else None
    args_fit = (X,) if y is None else (X, y if kind != "regressor" else np.asarray(y, dtype=float))
    # input of inverse_transform: produced by an independent twin so that the plan is not disturbed
    inv_in = None
    if "inverse_transform" in entry["methods"]:
        X0, _ = fresh_data()
        inv_in = entry["factory"]().fit(X0).transform(X0)
    # horizons are the caller's objects too: a list and an array, neither of them in ascending order
    fh_out, fh_in = [6, 4, 5], np.array([1, -2, 0, -1])
    caller = [X, y, inv_in, Xa, fh_out, fh_in]
    d0 = fp(caller)

    def call(est, m, Xarg, inv):
        if m == "inverse_transform":
            return est.inverse_transform(inv)
        if kind == "forecaster":
            if m == "predict_fail":
                # a call that is rejected part-way (in-sample forecasts do not take exogenous data): nothing may stick
                try:
                    est.predict([-3, -1, 0], X=pd.DataFrame({"x": [1.0, 2.0, 3.0]}))
                    return "returned"
                except Exception as e:
                    return "raised"
            if m == "predict":
                return est.predict(fh_out)
            if seed % 2:
                # an absolute in-sample horizon with the very values of the relative one above
                from sktime.forecasting.base import ForecastingHorizon
                r = est.predict(ForecastingHorizon(pd.Index([4, 5, 6]), is_relative=False))
            else:
                r = est.predict(fh_in)
            # asked again without a horizon, the forecaster answers for the horizon it was just given
            r2 = est.predict()
            if list(r2.index) != list(r.index) or not np.array_equal(r2.values, r.values, equal_nan=True):
                raise AssertionError("predict() right after predict(fh) with in-sample steps is indexed %s instead of %s"
                                     % (list(r2.index), list(r.index)))
            return r
        return getattr(est, m)(Xarg if Xa is None else Xa)
    import joblib

    def body():
        est = entry["factory"]()
        est.fit(*args_fit)
        events.append({"op": "fit", "m": "", "efp": efp(est), "dfp": fp(caller), "rfp": 0})
        if tid % 2 == 0:
            # another estimator of the same kind and configuration is fitted on other data in between (an estimator owns
            # what it learns: nothing is shared through the class or the module)
            if kind == "series-transformer":
                XO, yO = series_data(entry, seed + 50, container), None
            elif kind == "forecaster":
                XO, yO = series_data({"missing": False}, seed + 50), None
            else:
                XO, yO = panel_data(entry, seed + 50, container)
            entry["factory"]().fit(*((XO,) if yO is None else (XO, yO if kind != "regressor" else np.asarray(yO, dtype=float))))
        for m in plan[1:]:
            r = call(est, m, X, inv_in)
            events.append({"op": "apply", "m": m, "efp": efp(est), "dfp": fp(caller), "rfp": fp(r)})
        # copies: pickled-and-restored, twin with equal params on equal data, twin with another n_jobs
        X2, y2 = fresh_data()
        a2 = (X2,) if y2 is None else (X2, y2 if kind != "regressor" else np.asarray(y2, dtype=float))
        copies = [("pickle", pickle.loads(pickle.dumps(est))), ("twin", entry["factory"]().fit(*a2))]
        proto = entry["factory"]()
        if "n_jobs" in proto.get_params(deep=False):
            other = 2 if proto.get_params(deep=False)["n_jobs"] in (None, 1) else 1
            copies.append(("jobs", proto.set_params(n_jobs=other).fit(*a2)))
        for op, c in copies:
            for m in entry["methods"]:
                r = call(c, m, X2, inv_in)
                events.append({"op": op, "m": m, "efp": 0, "dfp": fp(caller), "rfp": fp(r)})
        if kind != "forecaster":       # (re-fitting forecasters: life-cycle checks C03 / C10)
            # the same object fitted again on other data answers like a fresh estimator fitted on that data only
            seedB = seed + 50
            if kind == "series-transformer":
                # ... on a series that starts two time points later (not a multiple of any seasonal period used)
                XB, yB = series_data(entry, seedB, container, start=5), None
            else:
                XB, yB = panel_data(entry, seedB, container)
            aB = (XB,) if yB is None else (XB, yB if kind != "regressor" else np.asarray(yB, dtype=float))
            callerB = [XB, yB, inv_in, Xa, fh_out, fh_in]
            dB = fp(callerB)
            est.fit(*aB)
            events.append({"op": "fit2", "m": "", "efp": efp(est), "dfp": fp(callerB), "d2": dB, "rfp": 0})
            freshB = entry["factory"]().fit(*copy.deepcopy(aB))
            for who, obj in (("apply", est), ("fresh", freshB)):
                for m in entry["methods"]:
                    r = call(obj, m, XB, inv_in)
                    events.append({"op": who, "m": m, "efp": efp(est), "dfp": fp(callerB), "rfp": fp(r)})
    try:
        with joblib.parallel_backend("threading"):   # no worker processes: they would lack the compat layer
            body()
    except Exception as e:
        import traceback
        return events, type(e).__name__ + ": " + str(e)[:140] + " @ " + traceback.format_exc().splitlines()[-3].strip()[:100]
    out = []
    for i, ev in enumerate(events):
        out.append(dict(ev, tid=tid, i=i + 1, d0=d0))
    return out, None


def boss_jobs(ctx):
    """The BOSS ensemble searches window / word lengths in parallel when n_jobs > 1: the ensemble it ends up with (and
    what it predicts) is the one found with n_jobs = 1, on series long enough for several word lengths to compete."""
    import joblib
    from sktime.classification.dictionary_based import BOSSEnsemble
    warnings.filterwarnings("ignore")
    for s_ in range(8 if ctx.quick else 40):
        seed = ctx.seed * 100 + s_
        ctx.evaluations += 1
        sc = {"boss_n_jobs": True, "seed": seed}
        try:
            X, y = E.make_panel(10, 1, 40, seed, noise=4.0)
            Xt, _ = E.make_panel(6, 1, 40, seed + 50, noise=4.0)
            with joblib.parallel_backend("threading"):
                a = BOSSEnsemble(max_ensemble_size=5, random_state=0, n_jobs=1).fit(X, y)
                b = BOSSEnsemble(max_ensemble_size=5, random_state=0, n_jobs=2).fit(X, y)
                pa, pb = a.predict_proba(Xt), b.predict_proba(Xt)
            ma = [(c.window_size, c.word_length, c.norm) for c in a.classifiers]
            mb = [(c.window_size, c.word_length, c.norm) for c in b.classifiers]
            if ma != mb or not np.array_equal(pa, pb):
                ctx.violation(sc, "ResultIndependentOfNJobs: BOSSEnsemble members (window, word length, norm) with n_jobs=1 %s, "
                                  "with n_jobs=2 %s" % (ma, mb))
            else:
                ctx.nontriv(sc)
        except Exception as e:
            ctx.violation(sc, "crash: %s %s" % (type(e).__name__, str(e)[:120]))


def schedule_checks(ctx):
    """Real threads forced to complete in every order that Parallel.tla allows."""
    import joblib
    from harness.gated import GatedBackend
    from sktime.forecasting.compose import EnsembleForecaster
    from sktime.forecasting.naive import NaiveForecaster
    from sktime.forecasting.trend import PolynomialTrendForecaster
    from sktime.classification.interval_based import TimeSeriesForestClassifier
    from sktime.forecasting.model_selection import ForecastingGridSearchCV, SlidingWindowSplitter
    warnings.filterwarnings("ignore")
    y = pd.Series(20 + np.arange(30.0) + 3 * np.sin(np.arange(30)))
    Xp, yp = E.make_panel(10, 1, 12, 3)
    members = [("a", NaiveForecaster("last")), ("b", NaiveForecaster("mean")), ("c", PolynomialTrendForecaster(degree=1)),
               ("d", NaiveForecaster("drift")), ("e", PolynomialTrendForecaster(degree=2))]

    def ens(k, T_):
        return EnsembleForecaster(members[:T_], n_jobs=k)

    def tuner(k, T_):
        return ForecastingGridSearchCV(NaiveForecaster(), cv=SlidingWindowSplitter(fh=1, window_length=20, step_length=3),
                                       param_grid={"window_length": [2, 3, 4, 5, 6][:T_], "strategy": ["mean"]}, n_jobs=k)

    def tsf(k, T_):
        return TimeSeriesForestClassifier(n_estimators=T_, random_state=0, n_jobs=k)
    n_orders = 0
    for cfgname, T_, K in (("Parallel.T4K2", 4, 2), ("Parallel.T5K3", 5, 3)):
        ctx.model_check("Parallel", cfgname + ".cfg", coverage=False)
        r = T.must(T.run("Parallel", cfgname + ".emit.cfg", ctx.work, workers=1), "orders")
        orders = sorted({tuple(v["order"]) for v in r.printed})
        if len(orders) < 3:
            raise T.TLCError("vacuity: %d completion orders" % len(orders))
        if ctx.quick:
            orders = orders[::max(1, len(orders) // 8)]
        ref_e = ens(None, T_).fit(y).predict([1, 2, 3])
        ref_t = tuner(None, T_).fit(y)
        ref_c = tsf(1, T_).fit(Xp, yp).predict_proba(Xp)
        for order in orders:
            n_orders += 1
            for name, mk, ref in (("EnsembleForecaster", ens, ref_e), ("ForecastingGridSearchCV", tuner, ref_t),
                                  ("TimeSeriesForestClassifier", tsf, ref_c)):
                ctx.evaluations += 1
                sc = {"schedule": list(order), "estimator": name, "n_jobs": K, "tasks": T_}
                try:
                    GatedBackend.arm(order)
                    with joblib.parallel_backend("gated", n_jobs=K):
                        if name == "EnsembleForecaster":
                            f = mk(K, T_).fit(y)
                            same = np.array_equal(f.predict([1, 2, 3]).values, ref.values) and \
                                [type(m).__name__ for m in f.forecasters_] == [type(m[1]).__name__ for m in members[:T_]]
                        elif name == "ForecastingGridSearchCV":
                            f = mk(K, T_).fit(y)
                            same = f.best_params_ == ref.best_params_ and \
                                list(f.cv_results_["params"]) == list(ref.cv_results_["params"]) and \
                                np.allclose(f.cv_results_.filter(like="mean_test").values,
                                            ref.cv_results_.filter(like="mean_test").values, rtol=0, atol=1e-12)
                        else:
                            f = mk(K, T_).fit(Xp, yp)
                            GatedBackend.arm(order)
                            same = np.array_equal(f.predict_proba(Xp), ref)
                    if GatedBackend.failures:
                        raise T.TLCError("gated backend: %s (order %s)" % (GatedBackend.failures, order))
                except T.TLCError:
                    raise
                except Exception as e:
                    ctx.violation(sc, "crash under schedule: %s %s" % (type(e).__name__, str(e)[:120]))
                    continue
                if not same:
                    ctx.violation(sc, "%s with n_jobs=%d under completion order %s differs from the sequential result"
                                  % (name, K, list(order)))
                else:
                    ctx.nontriv(sc)
    ctx.notes.append("completion orders replayed on real threads: %d" % n_orders)


def run(ctx):
    plans = {}
    for prof in ("t", "ti", "pp", "p", "pi"):
        ctx.model_check("MCPurity", "MCPurity.%s.cfg" % prof, coverage=False)
        r = T.must(T.run("MCPurity", "MCPurity.%s.emit.cfg" % prof, ctx.work, workers=1), "plans")
        plans[prof] = sorted({tuple(v["plan"]) for v in r.printed})
        if not plans[prof]:
            raise T.TLCError("no plans for profile " + prof)
    entries = E.series_transformers() + E.panel_transformers() + E.classifiers() + E.regressors()
    fc = [e for e in scope.forecasters() if e["cost"] == "fast" and e["mode"] == "opt"]
    for e in fc:
        insample = e["name"].startswith(("naive_last", "naive_mean_w3", "naive_drift", "poly"))
        entries.append({"name": "fc_" + e["name"], "kind": "forecaster", "factory": e["factory"],
                        "methods": ["predict", "predict_insample"] if insample and e["name"] != "naive_drift" else ["predict"]})
    ctx.exhaustive = False
    trace = []
    meta = {}
    tid = 0
    for ei, entry in enumerate(entries):
        prof = PROFILE[tuple(entry["methods"])]
        pl = plans[prof]
        slow = entry.get("cost") == "slow"
        if ctx.quick:
            k = 2 if slow else 5
        else:
            k = 6 if slow else len(pl)
        chosen = pl if len(pl) <= k else [pl[(ei * 7 + j * 5) % len(pl)] for j in range(k)]
        if prof in ("pp", "pi"):     # one fixed interleaving with every method repeated
            a, b = entry["methods"]
            chosen = list(chosen) + [("fit", a, b, a, a, b)]
        if prof == "pi":             # ... and one with a failing call in between
            chosen = list(chosen) + [("fit", "predict", "predict_fail", "predict", "predict_insample", "predict_fail", "predict")]
        conts = ["series", "frame"] if entry["kind"] == "series-transformer" and entry.get("missing") else \
            (["series"] if entry["kind"] in ("series-transformer", "forecaster") else ["nested", "numpy3d"])
        for pi, plan in enumerate(dict.fromkeys(chosen)):
            cont = conts[pi % len(conts)]
            tid += 1
            evs, crash = run_scenario(entry, list(plan), cont, seed=ctx.seed + ei, tid=tid)
            ctx.evaluations += 1
            sc = {"estimator": entry["name"], "plan": list(plan), "container": cont, "seed": ctx.seed + ei}
            if crash:
                ctx.violation(sc, "crash: " + crash)
                continue
            meta[tid] = sc
            trace += evs
            if len(plan) > 2:
                ctx.nontriv(sc)
            if pi == 0 and ei % 12 == 0:
                ctx.sample({"scenario": sc, "events": [(e["op"], e["m"], e["efp"], e["dfp"], e["rfp"]) for e in evs][:8]})
    rejects, _ = ctx.judge("TracePurity", "TracePurity.cfg", trace)
    ctx.traces += len(meta) - len(rejects)
    for t, clauses in rejects.items():
        ctx.violation(meta[t], "TLC rejects the recorded scenario of %s: %s" % (meta[t]["estimator"], clauses))
    schedule_checks(ctx)
    boss_jobs(ctx)
    return ctx.finish(
        rule="TLC enumerates every interleaving of up to 4 apply-type calls per method profile (transform; "
             "transform+inverse_transform; predict+predict_proba; predict) and every completion order of T tasks on "
             "K workers with joblib's dispatch window; each runnable estimator (series / panel transformers, "
             "classifiers, regressor, forecasters) executes a sample of the interleavings on Series / DataFrame / "
             "nested DataFrame / 3-D array inputs containing missing values and an outlier where supported, then "
             "a pickled copy, a twin and a twin with another n_jobs apply every method; fingerprints of the "
             "caller's data, the estimator's public state and each result are validated by TracePurity.tla; "
             "ensemble fit, tuning and forest fit/predict_proba are re-run on real threads forced through each "
             "TLC-generated completion order and compared with the sequential result. Non-trivial = scenario with "
             ">= 2 apply calls or a forced schedule; distinct by (estimator, plan, container) / (estimator, order).",
        assumptions=["compat shim", "estimator state = constructor parameters and public fitted attributes (private caches are not part of the property)",
                     "threads under the GIL: completion order is controlled, not instruction interleaving"],
        extra={"estimators": [e["name"] for e in entries]})


def replay(ctx, doc):
    sc = doc["scenario"]
    if "schedule" in sc:
        n0 = len(ctx.violations)
        schedule_checks(ctx)
        return 1 if len(ctx.violations) > n0 else 0
    if "boss_n_jobs" in sc:
        n0 = len(ctx.violations)
        boss_jobs(ctx)
        return 1 if len(ctx.violations) > n0 else 0
    entries = E.series_transformers() + E.panel_transformers() + E.classifiers() + E.regressors()
    for e in scope.forecasters():
        entries.append({"name": "fc_" + e["name"], "kind": "forecaster", "factory": e["factory"], "methods": ["predict"]})
    entry = [e for e in entries if e["name"] == sc["estimator"]][0]
    evs, crash = run_scenario(entry, sc["plan"], sc["container"], sc["seed"], 1)
    print("events:", canon(evs)[:2000], crash)
    if crash:
        print("VIOLATION property=C12 replay=%s" % ctx.replay)
        return 1
    rejects, _ = ctx.judge("TracePurity", "TracePurity.cfg", evs)
    if rejects:
        print("VIOLATION property=C12 replay=%s %s" % (ctx.replay, rejects))
        return 1
    print("replay accepted")
    return 0
