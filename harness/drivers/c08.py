"""C08 -- tuning selects, exposes and refits the best candidate. Spec: spec/Tune.tla."""
import numpy as np
import pandas as pd

from harness import stubs
from harness import tlc as T
from harness.core import canon
from harness.decode import iround

REJECT = (ValueError, TypeError, NotImplementedError)
TAG = "c08"


ORIGIN = [0]


def build(cfg):
    """(prototype forecaster, param grid, function candidate index -> params)"""
    import functools
    from sktime.forecasting.compose import TransformedTargetForecaster, MultiplexForecaster
    TF = functools.partial(stubs.make_table_forecaster(), origin=ORIGIN[0])
    tabs = [tuple(t) for t in cfg["tables"]]
    n = cfg["n"]
    if cfg["nest"] == "plain":
        return TF(table=tabs[0], n=n, tag=TAG), {"table": tabs}, lambda i: {"table": tabs[i]}
    if cfg["nest"] == "pipe":
        Id = stubs.make_identity_transformer()
        proto = TransformedTargetForecaster([("t", Id()), ("f", TF(table=tabs[0], n=n, tag=TAG))])
        return proto, {"f__table": tabs}, lambda i: {"f__table": tabs[i]}
    names = ["c%d" % i for i in range(len(tabs))]
    proto = MultiplexForecaster([(nm, TF(table=t, n=n, tag=TAG)) for nm, t in zip(names, tabs)],
                                selected_forecaster=names[0])
    return proto, {"selected_forecaster": names}, lambda i: {"selected_forecaster": names[i]}


def scorer(gib):
    """Signed forecast bias mean(y_pred - y_true): for the stub it equals the fold's table entry,
    and unlike MAE it is not symmetric in its arguments."""
    from sktime.performance_metrics.forecasting import make_forecasting_scorer

    def bias(y_true, y_pred):
        return float(np.mean(np.asarray(y_pred) - np.asarray(y_true)))

    def negbias(y_true, y_pred):
        return -bias(y_true, y_pred)
    if not gib:
        return make_forecasting_scorer(bias, name="bias", greater_is_better=False)
    return make_forecasting_scorer(negbias, name="negbias", greater_is_better=True)


def table_of(params, cfg):
    if "table" in params:
        return list(params["table"])
    if "f__table" in params:
        return list(params["f__table"])
    return list(cfg["tables"][int(params["selected_forecaster"][1:])])


def observe(cfg, variant=0):
    from sklearn.base import clone
    from sktime.exceptions import NotFittedError
    from sktime.forecasting.model_selection import (ForecastingGridSearchCV, ForecastingRandomizedSearchCV,
                                                    ExpandingWindowSplitter)
    from sktime.forecasting.model_evaluation import evaluate
    n, F = cfg["n"], len(cfg["tables"][0])
    og = ORIGIN[0] = [0, 7, -3][variant % 3]       # integer labels need not start at 0
    y = pd.Series([1000.0 + t for t in range(n)], index=pd.RangeIndex(og, og + n))
    cv = ExpandingWindowSplitter(fh=[1], initial_window=n - F, step_length=1)
    proto, grid, params_of = build(cfg)
    sc = scorer(cfg["gib"])
    stubs.reset(TAG)
    proto0 = repr(sorted((k, repr(v)) for k, v in proto.get_params(deep=True).items()))
    try:
        if cfg["kind"] == "grid":
            tuner = ForecastingGridSearchCV(proto, cv=cv, param_grid=grid, scoring=sc, refit=cfg["refit"],
                                            strategy=cfg.get("strat", "refit"), n_jobs=None if variant % 2 == 0 else 2)
        else:
            tuner = ForecastingRandomizedSearchCV(proto, cv=cv, param_distributions=grid, n_iter=len(cfg["tables"]),
                                                  scoring=sc, refit=cfg["refit"], strategy=cfg.get("strat", "refit"),
                                                  random_state=variant)
        import joblib
        fitfh = [2, 3] if variant % 2 else None      # a horizon handed to fit that differs from the splitter's [1]
        # every third search comes with exogenous data: every fit of every candidate, and the final refit, get the rows
        # of X that belong to their training window
        Xex = pd.DataFrame({"x": [3000.0 + t for t in range(n)]}, index=y.index) if (variant % 3 == 1 and cfg["nest"] == "plain") else None
        with joblib.parallel_backend("threading"):   # threads: the stubs' logs live in this process
            tuner.fit(y, X=Xex, fh=fitfh) if Xex is not None else tuner.fit(y, fh=fitfh)
        if Xex is not None:
            badx = [e for e in stubs.LOG[TAG] if e["ev"] == "fit" and e.get("x") != list(range(e["first"], e["last"] + 1))]
            if badx:
                return {"crash": "a candidate / the refitted best forecaster was fitted on %d..%d with exogenous rows %s"
                                 % (badx[0]["first"], badx[0]["last"], badx[0].get("x"))}
        res = tuner.cv_results_
        col = "mean_test_" + sc.name
        tabs = [list(t) for t in cfg["tables"]]
        row_of = {}
        for ridx in range(len(res)):
            row_of[tabs.index(table_of(res.loc[ridx, "params"], cfg))] = ridx
        if sorted(row_of) != list(range(len(tabs))):
            return {"crash": "cv_results_ does not have one row per candidate: %s" % sorted(row_of)}
        rows = [iround(F * float(res.loc[row_of[i], col]) * 1000) for i in range(len(tabs))]
        if any(r % 1000 for r in rows if r != -999999):
            return {"crash": "non-integer score table %s" % rows}
        rows = [r // 1000 if r != -999999 else r for r in rows]        # -999999: undefined (NaN) mean score
        best_row = int(tuner.best_index_)
        inv = {v: k for k, v in row_of.items()}
        log = [e for e in stubs.LOG[TAG] if e["ev"] == "fit"]
        windows = []
        for i, t in enumerate(tabs):
            w = [[e["first"], e["last"]] for e in log if e["table"] == t and e["last"] < n - 1]
            windows.append(w[:F] if cfg["nest"] != "mux" else w[:F])
        o = {"rows": rows, "best_index": inv[best_row] + 1,
             # update calls the candidates received during the search (before the best one is refitted / updated below)
             "updates": len([e for e in stubs.LOG[TAG] if e["ev"] == "update"]),
             "best_score": iround(F * float(tuner.best_score_)),
             "best_params": tabs.index(table_of(tuner.best_params_, cfg)) + 1,
             "windows": windows}
        # the template: same object, same parameters, unfitted; the refitted best forecaster is another object
        o["template"] = bool(tuner.forecaster is proto and not getattr(proto, "_is_fitted", False)
                             and repr(sorted((k, repr(v)) for k, v in proto.get_params(deep=True).items())) == proto0
                             and getattr(tuner, "best_forecaster_", None) is not proto)
        # independent evaluate() per candidate
        indep = []
        for i in range(len(tabs)):
            f = clone(proto).set_params(**params_of(i))
            ev = evaluate(f, cv, y, scoring=sc)
            indep.append(iround(F * float(ev["test_" + sc.name].mean(skipna=False))))
        o["indep"] = indep
        # delegation
        ynew = pd.Series([1000.0 + t for t in range(n, n + 2)], index=pd.RangeIndex(og + n, og + n + 2))
        if cfg["refit"]:
            whole = [e for e in stubs.LOG[TAG] if e["ev"] == "fit" and e["last"] == n - 1
                     and e["table"] == tabs[o["best_params"] - 1]]
            o["refit_window"] = [whole[0]["first"], whole[0]["last"]] if whole else [-1, -1]
            direct = clone(proto).set_params(**tuner.best_params_)
            direct.fit(y, X=Xex, fh=fitfh) if Xex is not None else direct.fit(y, fh=fitfh)
            if fitfh:      # predict() without a horizon answers for the one given to fit
                a, b = tuner.predict(), direct.predict()
                if list(a.index) != [og + n - 1 + h for h in fitfh] or list(a.index) != list(b.index) or \
                        not np.allclose(a.values, b.values, rtol=0, atol=1e-9):
                    return dict(o, crash="tuner.fit(y, fh=%s); predict() is indexed %s, the best forecaster fitted directly gives %s"
                                % (fitfh, list(a.index), list(b.index)))
            same = bool(np.allclose(tuner.predict([1, 2]).values, direct.predict([1, 2]).values, rtol=0, atol=1e-9)) and \
                list(tuner.predict([1, 2]).index) == list(direct.predict([1, 2]).index)
            o["cutoff"] = int(tuner.cutoff) - og
            same = same and int(direct.cutoff) - og == o["cutoff"]
            for upd in (False, True):
                import copy
                t2, d2 = copy.deepcopy(tuner), copy.deepcopy(direct)
                Xnew = None if Xex is None else pd.DataFrame({"x": [3000.0 + t for t in range(n, n + 2)]}, index=ynew.index)
                t2.update(ynew, X=Xnew, update_params=upd)
                d2.update(ynew, X=Xnew, update_params=upd)
                same = same and bool(np.allclose(t2.predict([1, 2]).values, d2.predict([1, 2]).values, rtol=0, atol=1e-9)) \
                    and int(t2.cutoff) == int(d2.cutoff) == og + n + 1
            o["delegates"] = same
            o["notfitted"] = [False, False, False]
        else:
            nf = []
            for call in (lambda: tuner.predict([1]), lambda: tuner.update(ynew), lambda: tuner.cutoff):      # (unfitted: no X needed)
                try:
                    call()
                    nf.append(False)
                except NotFittedError:
                    nf.append(True)
                except Exception:
                    nf.append(False)
            o["notfitted"] = nf
            o["refit_window"] = [0, 0]
            o["delegates"] = False
            o["cutoff"] = -1
        # a second fit of the very same tuner object
        first = (repr(res[col].tolist()), int(tuner.best_index_), float(tuner.best_score_), repr(tuner.best_params_))
        with joblib.parallel_backend("threading"):
            tuner.fit(y, X=Xex, fh=fitfh) if Xex is not None else tuner.fit(y, fh=fitfh)
        res2 = tuner.cv_results_
        o["again"] = bool((repr(res2[col].tolist()), int(tuner.best_index_), float(tuner.best_score_), repr(tuner.best_params_)) == first)
        return o
    except Exception as e:
        import traceback
        return {"crash": type(e).__name__ + ": " + str(e)[:200] + " @ " + traceback.format_exc().splitlines()[-3].strip()[:120]}


def run(ctx):
    tier = ctx.tier
    ctx.model_check("MCTune", "MCTune.%s.cfg" % tier, need_actions=("PickOpts", "AddCand", "Finish"))
    r = T.must(T.run("MCTune", "MCTune.%s.emit.cfg" % tier, ctx.work, workers=16), "emit")
    if not r.printed:
        raise T.TLCError("no vectors")
    vectors = r.printed
    if ctx.quick and len(vectors) > 500:
        vectors = ctx.rng.sample(vectors, 500)
        ctx.exhaustive = False
    elif not ctx.quick and len(vectors) > 6000:
        vectors = ctx.rng.sample(vectors, 6000)
        ctx.exhaustive = False
    ctx.notes.append("vectors emitted by TLC: %d, replayed %d" % (len(r.printed), len(vectors)))
    recs = []
    for i, v in enumerate(vectors):
        cfg = v["cfg"]
        obs = observe(cfg, i)
        ctx.evaluations += 1
        sc = {"cfg": cfg, "variant": i % 60}
        if "crash" in obs:
            ctx.violation(sc, "crash: " + obs["crash"])
            continue
        # spec -> code comparison of what TLC emitted
        if obs["rows"] != v["rows"] or obs["best_index"] not in v["best"]:
            ctx.violation(sc, "spec->code: scores %s best %s; specification: scores %s best set %s"
                          % (obs["rows"], obs["best_index"], v["rows"], v["best"]))
        recs.append({"tid": i, "cfg": cfg, "obs": obs})
        if len(set(v["rows"])) > 1:
            ctx.nontriv(cfg)
        if i % 150 == 0:
            ctx.sample({"cfg": cfg, "scores": v["rows"], "best_set": v["best"], "observed_best": obs["best_index"]})
    rejects, _ = ctx.judge("TraceTune", "TraceTune.cfg", recs)
    ctx.traces += len(recs) - len(rejects)
    for rec in recs:
        if rec["tid"] in rejects:
            ctx.violation({"cfg": rec["cfg"], "variant": rec["tid"] % 60},
                          "code->spec: TLC rejects tuning run, clause %s; observed %s"
                          % (rejects[rec["tid"]], canon(rec["obs"])[:400]))
    return ctx.finish(
        rule="TLC enumerates fold-loss tables for 2-3 candidates (ties included) x direction x refit x "
             "grid/randomized x plain / pipeline (f__table) / multiplexer (selected_forecaster) parameter "
             "names; a stub forecaster whose fold error equals its parameter turns each table into a real "
             "search; cv_results_ rows, an independent evaluate() per candidate, the training windows every "
             "candidate received, best_index_/best_score_/best_params_, the refit window, delegation of "
             "predict/update/cutoff against a directly constructed forecaster, and NotFittedError without "
             "refit are recorded and validated by TraceTune.tla (and compared with TLC's emitted scores). "
             "Non-trivial = candidates with different scores; distinct by configuration.",
        assumptions=["compat shim (_check_param_grid, if_delegate_has_method, DataFrame.append)",
                     "the table forecaster stub is treated like any forecaster"])


def replay(ctx, doc):
    sc = doc["scenario"]
    obs = observe(sc["cfg"], sc.get("variant", 0))
    print("observed:", canon(obs)[:2000])
    if "crash" in obs:
        print("VIOLATION property=C08 replay=%s" % ctx.replay)
        return 1
    rejects, _ = ctx.judge("TraceTune", "TraceTune.cfg", [{"tid": 0, "cfg": sc["cfg"], "obs": obs}])
    if rejects:
        print("VIOLATION property=C08 replay=%s" % ctx.replay)
        return 1
    print("replay accepted")
    return 0
