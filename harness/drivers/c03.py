"""C03 -- forecasts are indexed by the requested horizon from the true cutoff.
Spec: spec/Forecaster.tla, MCForecaster.tla (behaviours), TraceForecaster.tla (judge)."""
from harness import scope
from harness import lifecycle as LC
from harness.core import canon
from harness.drivers import _life

PID = "C03"
CHECK = staticmethod(_life.check_c03)
WITH_UP = False


def run(ctx, pid=PID, check=_life.check_c03, with_up=WITH_UP):
    tier = ctx.tier
    ctx.model_check("MCForecaster", "MCForecaster.%s.cfg" % tier, coverage=False, timeout=1700)
    sim = "MCForecaster.sim%s.cfg" % pid
    behs = _life.behaviours(ctx, sim, 300 if ctx.quick else 1500, 5, ctx.seed)
    if not ctx.quick:
        behs += _life.behaviours(ctx, "MCForecaster.sim%slong.cfg" % pid, 400, 8, ctx.seed)
    ctx.notes.append("behaviours emitted by TLC -simulate: %d" % len(behs))
    by_mode = {"opt": [b for b in behs if b["mode"] == "opt"], "req": [b for b in behs if b["mode"] == "req"]}
    entries = scope.forecasters()
    ctx.exhaustive = False
    trace = []
    replayed = {}
    tid = 0
    for ei, entry in enumerate(entries):
        pool = by_mode[entry["mode"]]
        if entry.get("exog"):
            pool = [b for b in pool if not any(s["op"] == "upd_predict" for s in b["hist"])]
        if ctx.quick:
            n = 14 if entry["cost"] == "slow" else 60
        else:
            n = 120 if entry["cost"] == "slow" else 700
        rng = ctx.rng
        chosen = pool if len(pool) <= n else rng.sample(pool, n)
        for bi, beh in enumerate(chosen):
            origin = [0, 3, -2, 1000][(bi + ei) % 4]
            kind = "range" if (bi // 4) % 2 == 0 else "int64"
            bad, obs = check(ctx, entry, beh, origin, kind, bi)
            ctx.evaluations += 1
            key = {"forecaster": entry["name"], "hist": [{k: s[k] for k in ("op", "lo", "hi", "upd", "fh", "cv")}
                                                        for s in beh["hist"]]}
            if any(s["op"] != "fit" and not s["exp"]["rej"] for s in beh["hist"]):
                ctx.nontriv(key)
            for clause, detail in bad:
                ctx.violation({"forecaster": entry["name"], "mode": entry["mode"], "origin": origin,
                               "index_kind": kind, "fhvariant": bi, "beh": beh},
                              "%s on %s: %s" % (clause, entry["name"], detail))
                break
            if not bad:
                tid += 1
                replayed[tid] = {"forecaster": entry["name"], "mode": entry["mode"], "origin": origin,
                                 "index_kind": kind, "fhvariant": bi, "beh": beh}
                trace += _life.trace_events(tid, beh["mode"], beh["hist"], obs)
            if bi == 0 and ei % 6 == 0:
                ctx.sample({"forecaster": entry["name"], "origin": origin,
                            "calls": [(s["op"], s["lo"], s["hi"], s["upd"], s["fh"]["steps"]) for s in beh["hist"]],
                            "expected_last": beh["hist"][-1]["exp"]["times"] or beh["hist"][-1]["exp"]["cutoff"]})
    # code -> spec: python-random longer histories on the fast forecasters, judged by TLC
    nrand = 150 if ctx.quick else 1500
    fast = [e for e in entries if e["cost"] == "fast" and not e.get("exog")]
    recs = []
    meta = {}
    for t in range(nrand):
        entry = fast[t % len(fast)]
        hist = _life.random_history(ctx.rng, entry["mode"], with_up, 60, ctx.rng.randint(4, 12))
        origin = ctx.rng.choice([0, 7, -5, 100000])
        obs, _ = LC.run_history(entry["factory"], hist, origin, "range" if t % 2 else "int64")
        ctx.evaluations += 1
        crash = [o for o in obs if "crash" in o]
        if crash:
            ctx.violation({"forecaster": entry["name"], "mode": entry["mode"], "origin": origin,
                           "random_hist": hist}, "crash on valid call: %s" % crash[0]["crash"])
            continue
        tid += 1
        meta[tid] = (entry, hist, origin)
        recs += _life.trace_events(tid, entry["mode"], hist, obs)
    if not with_up:
        # three fixed histories per forecaster, stated directly by C03: (a) a relative and an absolute horizon with the
        # same numbers on one fitted object, (b) the horizon given to fit answers predict() -- also when it is not the
        # splitter's of a tuner --, (c) after an update with data that do not reach the end of what was seen before,
        # the cutoff is the last time point of the data passed to update
        from sktime.forecasting.base import ForecastingHorizon
        import pandas as pd
        for entry in entries:
            if entry.get("exog"):
                continue
            ctx.evaluations += 1
            sc = {"forecaster": entry["name"], "direct": "same-numbers / fit-horizon / short update"}
            try:
                y = LC.batch(0, 11, 1, 0, "range")
                if entry["mode"] == "opt":
                    f = entry["factory"]().fit(y)
                    pa = f.predict(ForecastingHorizon(pd.Index([14, 16]), is_relative=False))
                    pr = f.predict([14, 16])
                    pa2 = f.predict(ForecastingHorizon(pd.Index([14, 16]), is_relative=False))
                    if [int(i) for i in pa.index] != [14, 16] or [int(i) for i in pr.index] != [25, 27] or \
                            [int(i) for i in pa2.index] != [14, 16]:
                        ctx.violation(sc, "PredictIndex: absolute [14, 16] then relative [14, 16] then absolute again on %s gave "
                                          "indexes %s, %s, %s" % (entry["name"], list(pa.index), list(pr.index), list(pa2.index)))
                        continue
                    # the value labelled cutoff + step is the forecast of that step, whichever other steps are
                    # requested along with it (forecasters that do not depend on the horizon they were fitted with)
                    yv = LC.batch(0, 13, 1, 0, "range")
                    f = entry["factory"]().fit(yv)
                    full = f.predict([1, 2, 3, 4, 5])
                    for steps in ([2, 4], [3], [2, 3, 5], [5]):
                        part = entry["factory"]().fit(yv).predict(steps)
                        want = [float(full.iloc[h - 1]) for h in steps]
                        if [int(i) for i in part.index] != [13 + h for h in steps] or not LC.close([float(v) for v in part.values], want):
                            ctx.violation(sc, "PredictIndex: on %s the values labelled cutoff + %s are %s, the forecasts of those steps "
                                              "(taken from predict([1..5])) are %s" % (entry["name"], steps, [float(v) for v in part.values], want))
                            break
                    else:
                        steps = None
                    if steps is not None:
                        continue
                f = entry["factory"]().fit(y, fh=[2, 4])
                p = f.predict()
                if [int(i) for i in p.index] != [13, 15]:
                    ctx.violation(sc, "PredictIndex: fit(y, fh=[2, 4]); predict() on %s is indexed %s" % (entry["name"], list(p.index)))
                    continue
                f.update(LC.batch(12, 17, 2, 0, "range"), update_params=False)
                f.update(LC.batch(13, 15, 3, 0, "range"), update_params=False)
                if int(f.cutoff) != 15:
                    ctx.violation(sc, "CutoffIsLastGiven: after update with time points 13..15 the cutoff of %s is %s" % (entry["name"], f.cutoff))
                    continue
                ctx.nontriv(sc)
            except Exception as e:
                ctx.violation(sc, "crash: %s %s" % (type(e).__name__, str(e)[:140]))
    if with_up:
        # one fixed history per forecaster, stated directly by C10: update_predict leaves the cutoff where it was, the
        # next predict is labelled from that cutoff, and a second pass over the same data returns the same labels
        from sktime.forecasting.model_selection import SlidingWindowSplitter as _SWS
        for entry in entries:
            if entry.get("exog"):
                continue
            ctx.evaluations += 1
            sc = {"forecaster": entry["name"], "direct": "fit / update_predict / predict / update_predict"}
            try:
                fhs = [1, 2]
                f = entry["factory"]().fit(LC.batch(0, 11, 1, 0, "range"), fh=fhs)
                ynew = LC.batch(12, 17, 2, 0, "range")
                up1 = f.update_predict(ynew, cv=_SWS(fh=fhs, window_length=2, step_length=2, start_with_window=True),
                                       update_params=False)
                c1 = int(f.cutoff)
                p = f.predict() if entry["mode"] == "req" else f.predict([1, 3])
                want = [12, 13] if entry["mode"] == "req" else [12, 14]
                up2 = f.update_predict(ynew, cv=_SWS(fh=fhs, window_length=2, step_length=2, start_with_window=True),
                                       update_params=False)
                if c1 != 11 or int(f.cutoff) != 11:
                    ctx.violation(sc, "CutoffRestored: update_predict left the cutoff of %s at %s / %s (was 11)" % (entry["name"], c1, f.cutoff))
                elif [int(i) for i in p.index] != want:
                    ctx.violation(sc, "PredictIndex: after update_predict the forecast of %s from cutoff 11 is labelled %s" % (entry["name"], list(p.index)))
                elif [int(i) for i in up1.index] != [int(i) for i in up2.index] or [int(i) for i in up1.index][:2] != [14, 15]:
                    ctx.violation(sc, "UpdatePredictLabels: first pass of %s labelled %s, second pass over the same data %s"
                                  % (entry["name"], list(up1.index), list(up2.index)))
                else:
                    # ... and over data that begin BEFORE the cutoff (an overlapping stretch): the cutoff is where it was
                    f.update(ynew, update_params=False)
                    f.update_predict(LC.batch(16, 21, 3, 0, "range"),
                                     cv=_SWS(fh=fhs, window_length=2, step_length=2, start_with_window=True), update_params=False)
                    if int(f.cutoff) != 17:
                        ctx.violation(sc, "CutoffRestored: update_predict over time points 16..21 left the cutoff of %s at %s (was 17)"
                                      % (entry["name"], f.cutoff))
                    else:
                        ctx.nontriv(sc)
            except Exception as e:
                ctx.violation(sc, "crash: %s %s" % (type(e).__name__, str(e)[:140]))
        # update_predict with a horizon that reaches into the sample (window forecasters answer those steps by a
        # nested moving-cutoff pass): the forecaster's own cutoff must still be where it was (Inv_CutoffRestored)
        from sktime.forecasting.model_selection import SlidingWindowSplitter
        for entry in [e for e in entries if e["name"] in ("naive_last", "naive_mean_w3", "naive_drift", "poly1")]:
            for fhs in ([-1, 0, 1, 2], [0, 1], [-2, 1]):
                ctx.evaluations += 1
                sc = {"forecaster": entry["name"], "insample_update_predict": fhs}
                try:
                    f = entry["factory"]()
                    f.fit(LC.batch(0, 11, 1, 0, "range"), fh=fhs)
                    before = int(f.cutoff)
                    f.update_predict(LC.batch(12, 17, 2, 0, "range"),
                                     cv=SlidingWindowSplitter(fh=fhs, window_length=3, start_with_window=True))
                    if int(f.cutoff) != before:
                        ctx.violation(sc, "CutoffRestored: update_predict with horizon %s left the cutoff at %s (was %s)"
                                      % (fhs, f.cutoff, before))
                    else:
                        ctx.nontriv(sc)
                except (ValueError, TypeError, NotImplementedError):
                    pass        # in-sample steps not offered by this forecaster
                except Exception as e:
                    ctx.violation(sc, "crash: %s %s" % (type(e).__name__, str(e)[:120]))
    allrecs = trace + recs
    rejects, _ = ctx.judge("TraceForecaster", "TraceForecaster.cfg", allrecs, timeout=2400)
    ntr = len({r["tid"] for r in allrecs})
    ctx.traces += ntr - len(rejects)
    for t, clauses in rejects.items():
        if t in meta:
            entry, hist, origin = meta[t]
            ctx.violation({"forecaster": entry["name"], "mode": entry["mode"], "origin": origin,
                           "random_hist": hist},
                          "code->spec: TLC rejects recorded trace of %s at clause %s" % (entry["name"], clauses))
        elif t in replayed:
            # the snapshot comparison of this check covers its own clauses; the judge evaluates the whole specification
            ctx.violation(replayed[t], "code->spec: TLC rejects the replayed behaviour of %s at clause %s"
                          % (replayed[t]["forecaster"], clauses))
        else:
            raise T_err("judge rejects an unknown trace: tid %s %s\n%s"
                        % (t, clauses, "\n".join(canon(r) for r in allrecs if r["tid"] == t)))
    return ctx.finish(
        rule="Behaviours (call sequences over fit/update/predict/update_predict_single%s with every batch "
             "cut, overlap, horizon form) are generated by TLC -simulate from MCForecaster.tla with the "
             "expected snapshot after each call; each forecaster of harness/scope.py replays a seeded "
             "sample (origins 0/3/-2/1000, RangeIndex and Int64 index) and every snapshot is compared; "
             "recorded traces plus python-random longer histories are validated by TraceForecaster.tla. "
             "Non-trivial = behaviour with at least one accepted call after fit; distinct by (forecaster, "
             "call sequence)." % (", update_predict" if with_up else ""),
        assumptions=["compat shim", "forecast values are compared with a twin forecaster / an origin-0 run "
                     "of the same code (Forecaster.tla decides which), not recomputed independently",
                     "behaviours are sampled by simulation beyond depth 3 (exhaustive design check only to depth 3)"],
        extra={"forecasters": [e["name"] for e in entries]})


def T_err(msg):
    from harness import tlc as T
    return T.TLCError(msg)


def replay(ctx, doc, check=_life.check_c03, with_up=False):
    sc = doc["scenario"]
    if "insample_update_predict" in sc or "direct" in sc:
        return run(ctx, pid=ctx.pid, check=check, with_up=with_up)
    entry = [e for e in scope.forecasters() if e["name"] == sc["forecaster"]][0]
    if "beh" in sc:
        # (a judge rejection of a replayed behaviour is re-judged below as well)
        bad, obs = check(ctx, entry, sc["beh"], sc["origin"], sc["index_kind"], sc.get("fhvariant", 0))
        print("observed:", canon(obs)[:2000])
        if bad:
            print("VIOLATION property=%s replay=%s" % (ctx.pid, ctx.replay))
            print("  detail:", bad[0])
            return 1
        recs = _life.trace_events(1, sc["beh"]["mode"], sc["beh"]["hist"], obs)
        rejects, _ = ctx.judge("TraceForecaster", "TraceForecaster.cfg", recs)
        if rejects:
            print("VIOLATION property=%s replay=%s %s" % (ctx.pid, ctx.replay, rejects))
            return 1
    else:
        obs, _ = LC.run_history(entry["factory"], sc["random_hist"], sc["origin"], "range")
        recs = _life.trace_events(1, entry["mode"], sc["random_hist"], obs)
        rejects, _ = ctx.judge("TraceForecaster", "TraceForecaster.cfg", recs)
        print("observed:", canon(obs)[:2000])
        if rejects or any("crash" in o for o in obs):
            print("VIOLATION property=%s replay=%s" % (ctx.pid, ctx.replay))
            return 1
    print("replay accepted")
    return 0
