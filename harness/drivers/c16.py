"""C16 -- fitted panel estimators act row-wise and ignore the container. Spec: spec/PanelEstim.tla."""
import warnings

import numpy as np
import pandas as pd

from harness import estimators as E
from harness import tlc as T
from harness.core import canon
from harness.fingerprint import fp


CALLS = [0]


def to_container(X, kind):
    if kind == "numpy3d":
        from sktime.utils.data_processing import from_nested_to_3d_numpy
        CALLS[0] += 1
        a = from_nested_to_3d_numpy(X)
        # every other array in column-major memory layout (e.g. a transposed view of data stored time-first)
        return np.asfortranarray(a) if CALLS[0] % 2 else a
    return X


def _q(a):
    """Values rounded to 7 significant digits (BLAS may take different paths for one row and for many)."""
    a = np.asarray(a, dtype=float)
    with np.errstate(all="ignore"):
        mag = np.where(a == 0, 1.0, 10.0 ** np.floor(np.log10(np.abs(np.where(a == 0, 1.0, a)))))
        return np.round(a / mag, 6) * mag


def rows_of(out):
    """Fingerprint per output row, independent of the container the output comes in."""
    if isinstance(out, pd.DataFrame):
        rows = []
        for i in range(out.shape[0]):
            cells = []
            for j in range(out.shape[1]):
                c = out.iloc[i, j]
                if isinstance(c, dict):        # bags of words handed out as plain dictionaries
                    cells += [repr(sorted((int(k), int(v)) for k, v in c.items())), "|"]
                    continue
                cells += [repr(x) for x in _q(np.asarray(c, dtype=float).ravel())] + ["|"]
            rows.append(fp(cells))
        return rows
    a = np.asarray(out)
    if a.dtype.kind in "OUS":
        return [fp(repr(v)) for v in a]
    if a.ndim == 1:
        return [fp([repr(x) for x in _q([v])] + ["|"]) for v in a]
    return [fp(sum(([repr(x)] + ["|"] for x in _q(a[i].ravel())), [])) for i in range(a.shape[0])]


def panel_for(entry, n, seed):
    ncol = E.ncol(entry)
    noisy = entry["kind"] in ("classifier", "regressor")
    X, y = E.make_panel(n, ncol, entry.get("tp", 12), seed, noise=2.0 if noisy else 0.5, unequal=bool(entry.get("unequal")))
    if entry.get("static"):
        # a primitive (static) column next to the series column, unknown for some instances (not for the first)
        X["static"] = [np.nan if i % 3 == 1 else 1.5 + i for i in range(n)]
        X.index = [50 - 3 * i for i in range(n)]         # row labels in descending order
    return X, y


class CoerceTo3D:
    """What every array-based panel estimator does first: check_X(X, coerce_to_numpy=True). Nothing is learned."""

    def fit(self, X, y=None):
        return self

    def transform(self, X):
        from sktime.utils.validation.panel import check_X
        return check_X(X, coerce_to_numpy=True)


def local_entries():
    from sktime.transformations.panel.dictionary_based import SAX
    return [{"name": "sax_dict", "kind": "panel-transformer", "methods": ["transform"], "rowwise": True, "multivariate": False,
             "factory": lambda: SAX(word_length=4, alphabet_size=3, window_size=6, return_pandas_data_series=False)},
            {"name": "coerce_static", "kind": "panel-transformer", "methods": ["transform"], "rowwise": True,
             "multivariate": True, "static": True, "factory": CoerceTo3D}]


def all_entries():
    return E.panel_transformers() + E.classifiers() + E.regressors() + local_entries()


class Fitted:
    """Estimators fitted once per (entry, fit container) on a training panel, applied many times."""

    def __init__(self, entry, seed):
        self.entry, self.seed = entry, seed
        self.cache = {}

    def get(self, fitc):
        if fitc not in self.cache:
            # 9 training instances: deliberately different from the number of time points
            Xtr, ytr = E.make_panel(9, E.ncol(self.entry), self.entry.get("tp", 12),
                                    self.seed + 500,
                                    noise=2.0 if self.entry["kind"] in ("classifier", "regressor") else 0.5,
                                    unequal=bool(self.entry.get("unequal")))
            if fitc == "nested" and self.seed % 2 == 1 and not self.entry.get("unequal"):
                # series cells that carry the time labels of the stretch they were cut from (2000, 2001, ...)
                Xtr = Xtr.applymap(lambda c: pd.Series(np.asarray(c), index=np.arange(2000, 2000 + len(c))))
            est = self.entry["factory"]()
            yy = np.asarray(ytr, dtype=float) if self.entry["kind"] == "regressor" else ytr
            import joblib
            with joblib.parallel_backend("threading"):
                est.fit(to_container(Xtr, fitc), yy)
            self.cache[fitc] = est
        return self.cache[fitc]


def apply(est, entry, X):
    import joblib
    with joblib.parallel_backend("threading"):
        outs = [getattr(est, m)(X) for m in entry["methods"]]
    rows = [rows_of(o) for o in outs]
    n = len(rows[0])
    if any(len(r) != n for r in rows):
        return [-1] * (n + 1)
    return [fp([r[i] for r in rows]) for i in range(n)]


def run(ctx):
    warnings.filterwarnings("ignore")
    tier = ctx.tier
    ctx.model_check("MCPanelEstim", "MCPanelEstim.%s.cfg" % tier, coverage=False)
    r = T.must(T.run("MCPanelEstim", "MCPanelEstim.%s.emit.cfg" % tier, ctx.work, workers=8), "emit")
    trans = r.printed
    if not trans:
        raise T.TLCError("no transformations")
    ctx.notes.append("input transformations emitted by TLC: %d" % len(trans))
    ctx.exhaustive = False
    entries = all_entries()
    recs = []
    for ei, entry in enumerate(entries):
        slow = entry.get("cost") == "slow"
        per = (12 if slow else 60) if ctx.quick else (80 if slow else len(trans))
        chosen = trans if len(trans) <= per else ctx.rng.sample(trans, per)
        fitted = Fitted(entry, ctx.seed + ei)
        base_cache = {}
        for t in chosen:
            n = t["n"]
            try:
                if n not in base_cache:
                    Xb, _ = panel_for(entry, n, ctx.seed + ei)
                    base_cache[n] = (Xb, apply(fitted.get("nested"), entry, Xb))
                    # in between, the fitted objects are applied to a panel of SHORTER series (accepted or rejected --
                    # either way nothing of it may stick)
                    Xs, _ = E.make_panel(3, E.ncol(entry), max(4, entry.get("tp", 12) - 4), ctx.seed + ei + 7)
                    for est_ in list(fitted.cache.values()):
                        try:
                            apply(est_, entry, Xs)
                        except Exception:
                            pass
                Xb, base = base_cache[n]
                if entry.get("unequal") or entry.get("static"):      # unequal-length / mixed panels only exist as nested frames
                    t = dict(t, fitc="nested", applyc="nested")
                t = dict(t, keep=bool(len(recs) % 2))      # every other selection keeps its row labels, as X.iloc[...] leaves them
                Xt = Xb.iloc[[s - 1 for s in t["src"]]]
                if not t["keep"]:
                    Xt = Xt.reset_index(drop=True)
                rows = apply(fitted.get(t["fitc"]), entry, to_container(Xt, t["applyc"]))
            except Exception as e:
                import traceback
                ctx.violation({"estimator": entry["name"], "transformation": t},
                              "crash on valid input: %s %s @ %s" % (type(e).__name__, str(e)[:120],
                                                                   traceback.format_exc().splitlines()[-3].strip()[:100]))
                continue
            ctx.evaluations += 1
            cfg = dict(t, base=base)
            recs.append({"tid": len(recs), "cfg": cfg, "obs": {"rows": rows}, "estimator": entry["name"]})
            if t["src"] != list(range(1, n + 1)) or t["fitc"] != "nested" or t["applyc"] != "nested":
                ctx.nontriv({"e": entry["name"], "t": t})
        if ei % 8 == 0 and recs:
            ctx.sample({"estimator": entry["name"], "transformation": recs[-1]["cfg"], "observed_rows": recs[-1]["obs"]["rows"]})
    rejects, _ = ctx.judge("TracePanelRows", "TracePanelRows.cfg", [{k: x[k] for k in ("tid", "cfg", "obs")} for x in recs])
    ctx.traces += len(recs) - len(rejects)
    for rec in recs:
        if rec["tid"] in rejects:
            t = {k: rec["cfg"][k] for k in ("n", "src", "fitc", "applyc", "keep")}
            ctx.violation({"estimator": rec["estimator"], "transformation": t},
                          "TLC rejects %s under input transformation %s: %s" % (rec["estimator"], t, rejects[rec["tid"]]))
    return ctx.finish(
        rule="TLC enumerates every permutation, every non-empty order-preserving sub-selection and every single "
             "instance of panels with 2-4(5) instances, crossed with the container used at fit and at apply time "
             "(nested frame / 3-D array); each runnable panel transformer, classifier (predict and predict_proba) "
             "and regressor, fitted once per container on a training panel, is applied to the transformed panel "
             "and the row fingerprints are validated by TracePanelRows.tla against the rows of the untransformed "
             "run. Non-trivial = transformation other than the identity on nested data.",
        assumptions=["compat shim", "row fingerprints at 1e-10 rounding", "pure-python numba stubs make dictionary classifiers slow: they replay fewer transformations"],
        extra={"estimators": [e["name"] for e in entries]})


def replay(ctx, doc):
    sc = doc["scenario"]
    entry = [e for e in all_entries() if e["name"] == sc["estimator"]][0]
    t = sc["transformation"]
    ei = [e["name"] for e in all_entries()].index(entry["name"])
    fitted = Fitted(entry, ctx.seed + ei)
    Xb, _ = panel_for(entry, t["n"], ctx.seed + ei)
    base = apply(fitted.get("nested"), entry, Xb)
    Xs, _ = E.make_panel(3, E.ncol(entry), max(4, entry.get("tp", 12) - 4), ctx.seed + ei + 7)
    for est_ in list(fitted.cache.values()):
        try:
            apply(est_, entry, Xs)
        except Exception:
            pass
    Xt = Xb.iloc[[s - 1 for s in t["src"]]]
    if not t.get("keep"):
        Xt = Xt.reset_index(drop=True)
    rows = apply(fitted.get(t["fitc"]), entry, to_container(Xt, t["applyc"]))
    rejects, _ = ctx.judge("TracePanelRows", "TracePanelRows.cfg", [{"tid": 0, "cfg": dict(t, base=base), "obs": {"rows": rows}}])
    print("base", base, "rows", rows)
    if rejects:
        print("VIOLATION property=C16 replay=%s" % ctx.replay)
        return 1
    print("replay accepted")
    return 0
