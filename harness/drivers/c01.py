"""C01 -- temporal splitters. Spec: spec/Splitters.tla (+MCSplitters, TraceSplitters)."""
import numpy as np
import pandas as pd

from harness.core import canon

REJECT = (ValueError, TypeError, NotImplementedError)


def _series(n, variant, start):
    if variant == 0:
        idx = pd.RangeIndex(n)
        start = 0
    elif variant == 1:
        idx = pd.RangeIndex(start, start + n)
    else:
        idx = pd.Index(np.arange(start, start + n, dtype="int64"))
    return pd.Series(np.arange(n, dtype=float) * 10.0, index=idx), start


def _fh_arg(fh, variant):
    from sktime.forecasting.base import ForecastingHorizon
    if variant == 0:
        return list(fh)
    if variant == 1:
        return np.array(fh)
    if variant == 2 and len(fh) == 1:
        return int(fh[0])
    if variant == 3:
        return ForecastingHorizon(list(fh), is_relative=True)
    return list(fh)


def observe(cfg, variant=0, start=0):
    """Run the real code on a configuration; return an outcome-shaped dict."""
    from sktime.forecasting.model_selection import (
        SlidingWindowSplitter, ExpandingWindowSplitter, SingleWindowSplitter,
        CutoffSplitter, temporal_train_test_split)
    from sktime.forecasting.base import ForecastingHorizon
    kind, n = cfg["kind"], cfg["n"]
    y, start = _series(n, variant % 3, start)
    fh = _fh_arg(cfg["fh"], (variant // 3) % 4)
    rejected = {"rej": True, "splits": [], "cutoffs": [], "nsplits": 0}
    try:
        if kind in ("tts_size", "tts_fh"):
            X = pd.DataFrame({"a": np.arange(n) + 0.5}, index=y.index) if variant % 2 else None
            if kind == "tts_size":
                def sz(s):
                    return None if s[0] == "none" else (int(s[1]) if s[0] == "int" else s[1] / 8.0)
                kw = dict(test_size=sz(cfg["ts"]), train_size=sz(cfg["tr"]))
            else:
                if (variant // 3) % 2 and cfg["fh"][0] == 1:
                    # absolute horizon: training data is everything before the first test point
                    cut = n - cfg["fh"][-1] - 1
                    fha = ForecastingHorizon([start + cut + h for h in cfg["fh"]], is_relative=False)
                else:
                    fha = ForecastingHorizon(list(cfg["fh"]), is_relative=True)
                kw = dict(fh=fha)
            res = temporal_train_test_split(y, X, **kw) if X is not None else \
                temporal_train_test_split(y, **kw)
            ytr, yte = res[0], res[1]
            train = [int(i) - start for i in ytr.index]
            test = [int(i) - start for i in yte.index]
            # values must travel with their index
            if list(ytr.values) != [10.0 * t for t in train] or list(yte.values) != [10.0 * t for t in test]:
                return {"rej": False, "splits": [{"train": [-7], "test": [-7]}], "cutoffs": [-7], "nsplits": 1}
            if X is not None:
                xtr = [int(i) - start for i in res[2].index]
                if xtr != train:
                    train = xtr + [-8]
                if kind == "tts_size" and [int(i) - start for i in res[3].index] != test:
                    test = test + [-8]
            return {"rej": False, "splits": [{"train": train, "test": test}],
                    "cutoffs": [train[-1] if train else -1], "nsplits": 1}
        if kind == "sliding":
            cv = SlidingWindowSplitter(fh=fh, window_length=cfg["wl"], step_length=cfg["sl"],
                                       initial_window=cfg["iw"] or None,
                                       start_with_window=cfg["sww"])
        elif kind == "expanding":
            cv = ExpandingWindowSplitter(fh=fh, initial_window=cfg["wl"], step_length=cfg["sl"],
                                         start_with_window=cfg["sww"])
        elif kind == "single":
            cv = SingleWindowSplitter(fh=fh, window_length=cfg["wl"] or None)
        elif kind == "cutoff":
            cv = CutoffSplitter(np.array(cfg["cuts"]), fh=fh, window_length=cfg["wl"])
        arg = y if variant % 2 == 0 else y.index
        if variant % 3 == 1:
            # the splitter object has been used before, on a longer series: nothing of that may stick
            longer = pd.Series(np.arange(len(y) + 3, dtype=float), index=pd.RangeIndex(start, start + len(y) + 3))
            try:
                cv.get_n_splits(longer), list(cv.get_cutoffs(longer)), list(cv.split(longer))
            except Exception:
                pass
        splits = [{"train": [int(i) for i in tr], "test": [int(i) for i in te]}
                  for tr, te in cv.split(arg)]
        cutoffs = [int(c) for c in cv.get_cutoffs(arg)]
        nsplits = int(cv.get_n_splits(arg))
        return {"rej": False, "splits": splits, "cutoffs": cutoffs, "nsplits": nsplits}
    except REJECT:
        return rejected
    except Exception as e:  # any other exception is neither a result nor a rejection
        return {"rej": False, "splits": [], "cutoffs": [], "nsplits": -1,
                "crash": type(e).__name__}


def _strip(o):
    return {k: o[k] for k in ("rej", "splits", "cutoffs", "nsplits")}


def random_cfg(rng, big):
    kind = rng.choice(["sliding", "sliding", "expanding", "single", "cutoff", "tts_size", "tts_fh"])
    n = rng.randint(1, big)
    m = max(1, min(60, n + 2))
    k = rng.randint(1, min(6, m))
    fh = sorted(rng.sample(range(1, m + 1), k))
    cfg = {"kind": kind, "n": n, "fh": fh, "wl": 0, "sl": 1, "iw": 0, "sww": True,
           "cuts": [0], "ts": ["none", 0], "tr": ["none", 0]}
    if kind in ("sliding", "expanding"):
        cfg["wl"] = rng.randint(1, min(60, n + 1))
        cfg["sl"] = rng.randint(1, 60)
        cfg["sww"] = rng.random() < 0.7
        if kind == "sliding" and rng.random() < 0.4:
            cfg["iw"] = rng.randint(max(1, cfg["wl"] - 1), cfg["wl"] + 30)
    elif kind == "single":
        cfg["wl"] = rng.randint(0, min(60, n + 1))
        if fh[-1] > n:
            cfg["fh"] = [h for h in fh if h <= n] or [1]
    elif kind == "cutoff":
        cfg["wl"] = rng.randint(1, min(60, n + 1))
        hi = max(0, n - fh[-1] + rng.choice([-1, 0, 0, 1]))
        cfg["cuts"] = rng.sample(range(0, hi + 1), min(hi + 1, rng.randint(1, 5)))  # any order
    elif kind == "tts_size":
        def s():
            r = rng.random()
            return ["none", 0] if r < 0.3 else (["int", rng.randint(0, n)] if r < 0.65
                                                else ["frac", rng.randint(1, 7)])
        cfg["ts"], cfg["tr"] = s(), s()
        cfg["fh"] = [1]
    elif kind == "tts_fh":
        cfg["fh"] = [h for h in fh if h < n] or [1]
        if n < 2:
            cfg["n"] = 2
    return cfg


def run(ctx):
    tier = "quick" if ctx.quick else "thorough"
    # 1. design: the specification satisfies every clause for every bounded configuration
    ctx.model_check("MCSplitters", "MCSplitters.%s.cfg" % tier,
                    need_actions=("PickKind", "PickN", "PickFh", "PickWin"))
    # 2. spec -> code: replay the complete bounded enumeration, compare for equality
    from harness import tlc as T
    r = T.run("MCSplitters", "MCSplitters.%s.emit.cfg" % tier, ctx.work, workers=16)
    T.must(r, "emit")
    vectors = r.printed
    if len(vectors) != r.coverage.get("PickWin", (len(vectors),))[0] and len(vectors) == 0:
        raise T.TLCError("no vectors emitted")
    ctx.notes.append("vectors emitted by TLC: %d" % len(vectors))
    nvar = 12 if ctx.quick else 12
    for i, v in enumerate(vectors):
        cfg, exp = v["cfg"], v["out"]
        variants = [i % nvar] if ctx.quick else [i % nvar, (i + 5) % nvar, (i + 7) % nvar]
        for var in variants:
            obs = observe(cfg, var, start=(3 if var % 2 else -2))
            ctx.evaluations += 1
            if _strip(obs) != exp or "crash" in obs:
                ctx.violation({"cfg": cfg, "variant": var}, "spec->code: expected %s observed %s"
                              % (canon(exp)[:300], canon(obs)[:300]))
        if not exp["rej"] and exp["nsplits"] >= 1:
            ctx.nontriv(cfg)
        if i % 5000 == 0:
            ctx.sample({"cfg": cfg, "expected": exp})
    # 3. code -> spec: random configurations beyond the bound, judged by TLC
    nrand = 3000 if ctx.quick else 20000
    big = 120 if ctx.quick else 300
    recs = []
    for t in range(nrand):
        cfg = random_cfg(ctx.rng, big)
        var = ctx.rng.randrange(12)
        obs = observe(cfg, var, start=ctx.rng.randint(-50, 50))
        ctx.evaluations += 1
        if "crash" in obs:
            ctx.violation({"cfg": cfg, "variant": var}, "crash %s" % obs["crash"])
            continue
        recs.append({"tid": t, "cfg": cfg, "obs": _strip(obs), "variant": var})
        if not obs["rej"] and obs["nsplits"] > 1:
            ctx.nontriv(cfg)
    rejects, devs = ctx.judge("TraceSplitters", "TraceSplitters.cfg", recs)
    ctx.traces += len(recs) - len(rejects)
    for rec in recs:
        if rec["tid"] in rejects:
            ctx.violation({"cfg": rec["cfg"], "variant": rec["variant"]},
                          "code->spec: TLC rejects observed outcome, clause %s; observed %s"
                          % (rejects[rec["tid"]], canon(rec["obs"])[:300]))
    ctx.exhaustive = True
    return ctx.finish(
        rule="TLC enumerates every splitter configuration within the cfg constants and emits "
             "(cfg, expected outcome); each is replayed on the real splitters (index/argument "
             "variants rotated) and compared for equality; random larger configurations are "
             "recorded and validated by TraceSplitters.tla. Non-trivial = accepted configuration "
             "yielding at least one split (bounded) / more than one split (random); distinct by "
             "configuration hash.",
        assumptions=["compat shim (harness/compat.py) emulates removed numpy/pandas/sklearn names",
                     "bounded exhaustively only within the constants of MCSplitters.%s.cfg" % tier])


def replay(ctx, doc):
    sc = doc["scenario"]
    obs = observe(sc["cfg"], sc.get("variant", 0), start=3)
    recs = [{"tid": 0, "cfg": sc["cfg"], "obs": _strip(obs)}]
    rejects, _ = ctx.judge("TraceSplitters", "TraceSplitters.cfg", recs)
    print("observed:", canon(obs))
    if rejects or "crash" in obs:
        print("VIOLATION property=C01 replay=%s" % ctx.replay)
        return 1
    print("replay accepted")
    return 0
