"""C18 -- .ts files round-trip and all file formats parse to the same panel. Spec: spec/TsFile.tla."""
import os
import shutil
import warnings

import numpy as np
import pandas as pd

from harness import tlc as T
from harness.core import canon
from harness.fingerprint import fp

VALUES = {1: 0.0000001234, 2: -3.5, 3: 12345678.9, 4: 2.0, 5: -0.000042, 6: 1000000.0}   # many magnitudes
NOLAB = ["", ""]


def render(lines):
    """Concrete text of abstract lines (parser direction)."""
    out = []
    for ln in lines:
        k = ln["k"]
        if k == "comment":
            out.append("# a comment")
        elif k == "problemName":
            out.append("@problemName" + (" " + ln["b"] if ln["b"] else ""))
        elif k in ("timeStamps", "univariate", "equalLength"):
            out.append("@%s" % k + (" " + ln["b"] if ln["b"] else ""))
        elif k == "seriesLength":
            out.append("@seriesLength %d" % ln["n"])
        elif k == "classLabel":
            out.append("@classLabel" + (" " + ln["b"] if ln["b"] else "") + "".join(" " + l[0] for l in ln["labs"]))
        elif k == "data":
            out.append("@data" + (" " + ln["b"] if ln["b"] else ""))
        elif k == "unknownTag":
            out.append("@somethingElse 3")
        elif k == "case":
            s = ",".join(repr(VALUES[v]) for v in ln["vals"])
            if ln["lab"] != NOLAB:
                s += ":" + ln["lab"][0]
            out.append(s)
    return "\n".join(out) + "\n"


def load_unlabelled_arff(panel, variant, workdir, tid):
    """An .arff file without class attribute, loaded with has_class_labels=False."""
    from sktime.utils.data_io import load_from_arff_to_dataframe
    n = len(panel[0]["vals"])
    lines = ["@relation x"] + ["@attribute att%d numeric" % k for k in range(n)] + ["@data"]
    lines += [",".join(repr(VALUES[v]) for v in c["vals"]) for c in panel]
    path = os.path.join(workdir, "u%d.arff" % tid)
    with open(path, "w") as f:
        f.write("\n".join(lines) + ("\n" if variant % 2 else ""))
    try:
        X = load_from_arff_to_dataframe(path, has_class_labels=False)
        return [{"vals": [token_id(v, 1e-9) for v in X.iloc[i, 0].values], "lab": ""} for i in range(len(X))]
    except Exception as e:
        return [{"vals": [-2], "lab": type(e).__name__}]
    finally:
        os.remove(path)


def render_other_formats(panel, variant):
    """The same labelled, equal-length, univariate panel as the text of an .arff and of a UCR .tsv file (what the
    archive ships next to every .ts file), with harmless layout variations."""
    n = len(panel[0]["vals"])
    labs = sorted({c["lab"][0] for c in panel})
    arff = ["% a header comment" if variant % 2 else "%", "@RELATION x" if variant % 3 == 0 else "@relation x"]
    arff += ["@attribute att%d numeric" % k for k in range(n)]
    arff += ["@attribute target {%s}" % ",".join(labs), "", "@DATA" if variant % 2 else "@data"]
    for i, c in enumerate(panel):
        arff.append(",".join(repr(VALUES[v]) for v in c["vals"]) + "," + c["lab"][0])
        if variant % 4 == 2 and i == 0:
            arff.append("")                                   # a blank line between cases
    arff_text = "\n".join(arff) + ("" if variant % 5 == 3 else "\n")       # sometimes no line terminator at the end
    tsv_text = "".join(c["lab"][0] + "\t" + "\t".join(repr(VALUES[v]) for v in c["vals"]) + "\n" for c in panel)
    return arff_text, tsv_text


def load_other_formats(panel, variant, workdir, tid):
    from sktime.utils.data_io import load_from_arff_to_dataframe, load_from_ucr_tsv_to_dataframe
    arff_text, tsv_text = render_other_formats(panel, variant)
    out = {}
    for ext, text, loader in (("arff", arff_text, load_from_arff_to_dataframe), ("tsv", tsv_text, load_from_ucr_tsv_to_dataframe)):
        path = os.path.join(workdir, "f%d.%s" % (tid, ext))
        with open(path, "w") as f:
            f.write(text)
        try:
            X, y = loader(path)
            cases = []
            for i in range(len(X)):
                cell = X.iloc[i, 0]
                ok = list(X.columns) == ["dim_0"] and [int(t) for t in cell.index] == list(range(len(cell)))
                cases.append({"vals": [token_id(v, 1e-9) for v in cell.values] if ok else [-1], "lab": str(y[i])})
            out[ext] = cases
        except Exception as e:
            out[ext] = [{"vals": [-2], "lab": type(e).__name__}]
        finally:
            os.remove(path)
    return out


def token_id(tok, tol=1e-5):
    """Identifier of a value: within the precision the writer prints (tol=1e-5 relative) for text tokens; what a
    loader returns is the double nearest to the printed number, so loaded values are identified at 1e-9."""
    x = float(tok)
    for k, v in VALUES.items():
        if abs(x - v) <= tol * abs(v):
            return k
    return 0


def parse_text(text, labels):
    """Abstract lines of a file the real WRITER produced."""
    lines = []
    bylow = {l[0]: l for l in labels}
    for raw in text.splitlines():
        s = raw.strip()
        if not s:
            continue
        if s.startswith("#"):
            if not (lines and lines[-1]["k"] == "comment"):
                lines.append({"k": "comment", "b": "", "n": 0, "labs": [], "vals": [], "lab": NOLAB})
            continue
        if s.startswith("@"):
            toks = s.split(" ")
            tag = toks[0][1:]
            if tag == "problemName":
                lines.append({"k": tag, "b": "x" if len(toks) > 1 else "", "n": 0, "labs": [], "vals": [], "lab": NOLAB})
            elif tag in ("timeStamps", "univariate", "equalLength"):
                lines.append({"k": tag, "b": toks[1] if len(toks) > 1 else "", "n": 0, "labs": [], "vals": [], "lab": NOLAB})
            elif tag == "seriesLength":
                lines.append({"k": tag, "b": "", "n": int(toks[1]), "labs": [], "vals": [], "lab": NOLAB})
            elif tag == "classLabel":
                lines.append({"k": tag, "b": toks[1] if len(toks) > 1 else "", "n": 0,
                              "labs": [bylow.get(t, [t, t.lower()]) for t in toks[2:]], "vals": [], "lab": NOLAB})
            elif tag == "data":
                lines.append({"k": "data", "b": "" if len(toks) == 1 else "x", "n": 0, "labs": [], "vals": [], "lab": NOLAB})
            else:
                lines.append({"k": "unknownTag:" + tag, "b": "", "n": 0, "labs": [], "vals": [], "lab": NOLAB})
            continue
        parts = s.split(":")
        vals = [token_id(t) for t in parts[0].split(",")]
        lab = bylow.get(parts[1], [parts[1], parts[1].lower()]) if len(parts) > 1 else NOLAB
        lines.append({"k": "case", "b": "", "n": 0, "labs": [], "vals": vals, "lab": lab})
    return lines


def loaded_to_abstract(res, labelled):
    if labelled:
        X, y = res
        labs = [str(v) for v in y]
    else:
        X = res if not isinstance(res, tuple) else res[0]
        labs = [""] * len(X)
    cases = []
    for i in range(len(X)):
        vals = [token_id(v) for v in X.iloc[i, 0].values]
        cases.append({"vals": vals, "lab": labs[i]})
    return {"rej": False, "cases": cases, "labelled": bool(labelled)}


def load(path):
    from sktime.utils.data_io import load_from_tsfile_to_dataframe, TsFileParseException
    try:
        res = load_from_tsfile_to_dataframe(path)
        labelled = isinstance(res, tuple)
        return loaded_to_abstract(res, labelled)
    except TsFileParseException:
        return {"rej": True, "cases": [], "labelled": False}
    except (ValueError, TypeError) as e:
        return {"rej": True, "cases": [], "labelled": False, "exc": type(e).__name__}
    except Exception as e:
        return {"crash": type(e).__name__ + ": " + str(e)[:120]}


def write_and_load(cfg, workdir, tid):
    """Writer direction: real writer -> file lines -> real loader."""
    from sktime.utils.data_io import write_dataframe_to_tsfile
    panel, opts, labels = cfg["panel"], cfg["opts"], cfg["labels"]
    X = pd.DataFrame({"dim_0": [pd.Series([VALUES[v] for v in c["vals"]]) for c in panel]})
    if tid % 3 == 1:        # row labels as left behind by a shuffle / train-test split: rows are written in the given order
        X.index = [(7 * i + 3) % len(panel) + 10 * ((i + 1) % 2) for i in range(len(panel))]
    if tid % 4 == 2:        # cells cut out of a series whose index has a name: the name is not part of the data
        for c in X["dim_0"]:
            c.index.name = "time"
    d = os.path.join(workdir, "w%d" % tid)
    kw = {}
    if opts["labelled"]:
        num = all(l[0].isdigit() for l in labels)      # numeric label sets are passed as integers
        kw["class_label"] = [int(l[0]) if num else l[0] for l in labels]
        kw["class_value_list"] = [int(c["lab"][0]) if num else c["lab"][0] for c in panel]
    if opts["equal"]:
        kw["equal_length"] = True
        kw["series_length"] = len(panel[0]["vals"])
    if opts["comment"]:
        kw["comment"] = "written by the conformance harness"
    try:
        for _ in range(2 if tid % 5 == 0 else 1):     # writing twice to the same location replaces the file
            write_dataframe_to_tsfile(X, d, problem_name="x", **kw)
        path = os.path.join(d, "x", "x_transform.ts")
        text = open(path).read()
        loaded = load(path)
        # what the loader returns is exactly the double nearest to every number printed in the file
        if not loaded.get("rej") and "crash" not in loaded:
            from sktime.utils.data_io import load_from_tsfile_to_dataframe
            res = load_from_tsfile_to_dataframe(path)
            Xl = res[0] if isinstance(res, tuple) else res
            printed = [[float(t) for t in ln.split(":")[0].split(",")] for ln in text.splitlines()
                       if ln.strip() and not ln.lstrip().startswith(("@", "#"))]
            got = [[float(v) for v in Xl.iloc[i, 0].values] for i in range(len(Xl))]
            if got != printed:
                loaded["cases"] = [{"vals": [-3], "lab": "loaded values are not the printed numbers"}]
            if isinstance(res, tuple):
                # the single-frame form of the loader carries the same labels, instance by instance, in its class_vals column
                one = load_from_tsfile_to_dataframe(path, return_separate_X_and_y=False)
                if [str(v) for v in one["class_vals"]] != [str(v) for v in res[1]] or len(one) != len(Xl):
                    loaded["cases"] = [{"vals": [-4], "lab": "single-frame form has labels %s, (X, y) form has %s"
                                        % (list(one["class_vals"])[:6], list(res[1])[:6])}]
        return parse_text(text, labels), loaded
    except Exception as e:
        return None, {"crash": type(e).__name__ + ": " + str(e)[:120]}
    finally:
        shutil.rmtree(d, ignore_errors=True)


def utf8_labels_load(workdir):
    """A .ts file is UTF-8 text: class labels outside ASCII come back as written."""
    from sktime.utils.data_io import load_from_tsfile_to_dataframe
    labels = ["\u00e9t\u00e9", "\u00dcbung", "\u03b1\u03b2"]
    path = os.path.join(workdir, "utf8_labels.ts")
    with open(path, "w", encoding="utf-8") as f:
        f.write("@problemName u\n@timeStamps false\n@univariate true\n@classLabel true %s\n@data\n" % " ".join(labels))
        for i in range(4):
            f.write("%d.0,%d.5,2.0:%s\n" % (i, i, labels[i % 3]))
    try:
        X, y = load_from_tsfile_to_dataframe(path)
        got = [str(v) for v in y]
        want = [labels[i % 3] for i in range(4)]
        if [g.lower() for g in got] != [w.lower() for w in want] or len(X) != 4:
            return "labels written %s, loaded %s" % (want, got)
        return None
    finally:
        os.remove(path)


def multivariate_arff_agrees(name):
    """The relational (multivariate) .arff file of a bundled problem parses to the panel of its .ts file."""
    from sktime.utils.data_io import load_from_tsfile_to_dataframe, load_from_arff_to_dataframe
    import sktime
    base = os.path.join(os.path.dirname(sktime.__file__), "datasets", "data", name, name)
    Xt, yt = load_from_tsfile_to_dataframe(base + "_TRAIN.ts")
    Xa, ya = load_from_arff_to_dataframe(base + "_TRAIN.arff")
    if Xa.shape != Xt.shape or [str(v).lower() for v in ya] != [str(v).lower() for v in yt]:      # (labels up to letter case)
        return "shape %s / %d labels from the .arff, %s / %d from the .ts" % (Xa.shape, len(ya), Xt.shape, len(yt))
    for i in range(len(Xt)):
        for j in range(Xt.shape[1]):
            a, b = np.asarray(Xa.iloc[i, j], dtype=float), np.asarray(Xt.iloc[i, j], dtype=float)
            if a.shape != b.shape or not np.allclose(a, b, atol=1e-4, rtol=0):
                return "instance %d dimension %d differs" % (i, j)
    return ""


def dataset_record(name, loader, has_formats):
    from sktime.utils.data_io import (load_from_tsfile_to_dataframe, load_from_arff_to_dataframe,
                                      load_from_ucr_tsv_to_dataframe)
    import sktime
    base = os.path.join(os.path.dirname(sktime.__file__), "datasets", "data", name, name)

    def fps(X):
        # values and time index of every cell (all loaders number the time points 0..n-1)
        return [fp([[np.round(np.asarray(X.iloc[i, j], dtype=float), 6), [int(t) for t in X.iloc[i, j].index]]
                    for j in range(X.shape[1])]) for i in range(len(X))]
    d = {}
    Xt, yt = load_from_tsfile_to_dataframe(base + "_TRAIN.ts")
    d["ts"], d["lts"] = fps(Xt), [str(v) for v in yt]
    if has_formats:
        Xa, ya = load_from_arff_to_dataframe(base + "_TRAIN.arff")
        Xv, yv = load_from_ucr_tsv_to_dataframe(base + "_TRAIN.tsv")
        def fps_like(X):
            # the three files print different numbers of decimals: an instance that equals the .ts instance to
            # 1e-4 gets the .ts instance's fingerprint, any other instance its own
            out = []
            for i in range(len(X)):
                a = np.asarray(X.iloc[i, 0], dtype=float)
                same = i < len(Xt) and a.shape == np.asarray(Xt.iloc[i, 0]).shape and \
                    np.allclose(a, np.asarray(Xt.iloc[i, 0], dtype=float), atol=1e-4, rtol=0) and \
                    list(X.iloc[i, 0].index) == list(Xt.iloc[i, 0].index) and X.shape[1] == Xt.shape[1]
                out.append(d["ts"][i] if same else fp(["other", np.round(a, 6)]))
            return out
        d["arff"], d["larff"] = fps_like(Xa), [str(v) for v in ya]
        d["tsv"], d["ltsv"] = fps_like(Xv), [str(v) for v in yv]
    else:
        d["arff"], d["larff"], d["tsv"], d["ltsv"] = d["ts"], d["lts"], d["ts"], d["lts"]
    # call history: the single-frame form of a split is asked for before the (X, y) forms
    loader(split="train", return_X_y=False)
    loader(split="test", return_X_y=False)
    for split, key in (("train", "train"), ("test", "test"), (None, "all")):
        X, y = loader(split=split, return_X_y=True)
        if not all(str(c).startswith("dim_") for c in X.columns):
            raise AssertionError("%s(split=%r, return_X_y=True): X has columns %s" % (name, split, list(X.columns)))
        d[key], d["l" + key] = fps(X), [str(v) for v in y]
    F = loader(split=None, return_X_y=False)
    ycol = [c for c in F.columns if not c.startswith("dim_")][0]
    d["frame_all"], d["lframe_all"] = fps(F.drop(columns=[ycol])), [str(v) for v in F[ycol]]
    return d


def run(ctx):
    warnings.filterwarnings("ignore")
    tier = ctx.tier
    ctx.model_check("MCTsFile", "MCTsFile.%s.cfg" % tier, coverage=False, timeout=1700)
    r = T.must(T.run("MCTsFile", "MCTsFile.%s.emit.cfg" % tier, ctx.work, workers=16, timeout=1700), "emit")
    vectors = r.printed
    if not vectors:
        raise T.TLCError("no vectors")
    ctx.notes.append("files emitted by TLC: %d" % len(vectors))
    k = 1800 if ctx.quick else 15000
    if len(vectors) > k:
        vectors = ctx.rng.sample(vectors, k)
        ctx.exhaustive = False
    muts = set()
    recs = []
    work = os.path.join(ctx.work, "files")
    os.makedirs(work, exist_ok=True)
    for i, v in enumerate(vectors):
        cfg = v["cfg"]
        muts.add(cfg["mut"])
        # parser direction: the spec's (possibly mutated) file, rendered and loaded by the real parser
        path = os.path.join(work, "p%d.ts" % i)
        with open(path, "w") as f:
            f.write(render(cfg["lines"]))
        got = load(path)
        os.remove(path)
        ctx.evaluations += 1
        sc = {"cfg": cfg}
        if "crash" in got:
            ctx.violation(sc, "parser crash: " + got["crash"])
        else:
            got.pop("exc", None)
            if got != v["parsed"]:
                ctx.violation(sc, "spec->code (parser, header mutation %s): expected %s, loader gave %s"
                              % (cfg["mut"], canon(v["parsed"])[:200], canon(got)[:200]))
            recs.append({"tid": len(recs), "kind": "parse", "lines": cfg["lines"], "loaded": got})
        # writer direction (unmutated panels only)
        if cfg["mut"] == "none":
            lines, loaded = write_and_load(cfg, work, i)
            ctx.evaluations += 1
            if lines is None or "crash" in loaded:
                ctx.violation(sc, "writer/loader crash: %s" % (loaded.get("crash"),))
                continue
            loaded.pop("exc", None)
            if lines != v["written"]:
                ctx.violation(sc, "spec->code (writer): documented lines %s, file has %s"
                              % (canon([(x["k"], x["b"]) for x in v["written"]])[:250], canon([(x["k"], x["b"]) for x in lines])[:250]))
            recs.append({"tid": len(recs), "kind": "write", "opts": cfg["opts"], "panel": cfg["panel"],
                         "labels": cfg["labels"], "lines": lines, "loaded": loaded})
            # the same panel shipped as .arff and as UCR .tsv parses to the very panel the .ts file parses to
            lens = {len(c["vals"]) for c in cfg["panel"]}
            if not cfg["opts"]["labelled"] and len(lens) == 1 and min(lens) >= 1 and cfg["panel"]:
                ua = load_unlabelled_arff(cfg["panel"], i, work, i)
                ctx.evaluations += 1
                ts_cases = [{"vals": c["vals"], "lab": ""} for c in cfg["panel"]]
                recs.append({"tid": len(recs), "kind": "formats", "ts": ts_cases, "arff": ua, "tsv": ts_cases})
            if cfg["opts"]["labelled"] and len(lens) == 1 and min(lens) >= 1 and cfg["panel"]:
                other = load_other_formats(cfg["panel"], i, work, i)
                ctx.evaluations += 1
                ts_cases = [{"vals": c["vals"], "lab": c["lab"][0] if isinstance(c["lab"], list) else c["lab"]} for c in cfg["panel"]]
                recs.append({"tid": len(recs), "kind": "formats", "ts": ts_cases, "arff": other["arff"], "tsv": other["tsv"]})
        ctx.nontriv(cfg)
        if i % 600 == 0:
            ctx.sample({"mutation": cfg["mut"], "file": render(cfg["lines"]).splitlines(), "expected": v["parsed"]})
    if len(muts) < 8:
        raise T.TLCError("vacuity: mutations seen %s" % sorted(muts))
    # dataset relations
    from sktime.datasets import load_gunpoint, load_arrow_head, load_italy_power_demand, load_basic_motions, load_osuleaf
    from sktime.datasets.base import load_japanese_vowels
    for name, loader, hf in (("GunPoint", load_gunpoint, True), ("ArrowHead", load_arrow_head, True),
                             ("ItalyPowerDemand", load_italy_power_demand, False),
                             # multivariate (12 and 6 dimensions: more than ten columns, unequal lengths)
                             ("JapaneseVowels", load_japanese_vowels, False), ("BasicMotions", load_basic_motions, False),
                             ("OSULeaf", load_osuleaf, False)):
        ctx.evaluations += 1
        try:
            d = dataset_record(name, loader, hf)
            recs.append({"tid": len(recs), "kind": "dataset", "name": name, "has_formats": hf, "d": d})
        except Exception as e:
            ctx.violation({"dataset": name}, "dataset loader crash: %s %s" % (type(e).__name__, str(e)[:120]))
    ctx.evaluations += 1
    try:
        msg = multivariate_arff_agrees("BasicMotions")
        if msg:
            ctx.violation({"dataset": "BasicMotions", "format": "arff"}, "FormatsAgree (multivariate .arff): " + msg)
    except Exception as e:
        ctx.violation({"dataset": "BasicMotions", "format": "arff"}, "multivariate .arff loader crash: %s %s" % (type(e).__name__, str(e)[:120]))
    ctx.evaluations += 1
    try:
        msg = utf8_labels_load(ctx.work)
        if msg:
            ctx.violation({"utf8_labels": True}, "ParsedPanel (labels outside ASCII): " + msg)
        else:
            ctx.nontriv({"utf8_labels": True})
    except Exception as e:
        ctx.violation({"utf8_labels": True}, "loader crash on UTF-8 labels: %s %s" % (type(e).__name__, str(e)[:120]))
    fill = {"ts": [], "arff": [], "tsv": [], "lines": [], "loaded": {"rej": False, "cases": [], "labelled": False}, "opts": {"comment": False, "equal": False, "labelled": False},
            "panel": [], "labels": [], "d": {}, "has_formats": False}
    rejects, _ = ctx.judge("TraceTsFile", "TraceTsFile.cfg",
                           [dict(fill, **{k: x[k] for k in x if k != "name"}) for x in recs], timeout=2400)
    ctx.traces += len(recs) - len(rejects)
    for rec in recs:
        if rec["tid"] in rejects:
            ctx.violation({"record": {k: rec[k] for k in rec if k not in ("d",)}} if rec["kind"] != "dataset" else {"dataset": rec["name"]},
                          "code->spec: TLC rejects %s record: %s" % (rec["kind"], rejects[rec["tid"]]))
    shutil.rmtree(work, ignore_errors=True)
    return ctx.finish(
        rule="TLC enumerates panels (1-2(3) cases, length 2-3, six values spanning 1e-7..1e7), label sets (none, two, "
             "three, mixed case), writer options (comment, equal length / series length) and every single-line "
             "header mutation (tag missing, duplicated, after @data, bad Boolean, missing value, value on @data, "
             "unknown label, unknown tag) and proves round trip, acceptance of writer output and rejection of "
             "malformed headers on the line-level parser state machine; a seeded sample is rendered to files and "
             "loaded by the real parser (result or rejection compared), and written by the real writer (its lines "
             "compared with the specification, then loaded back); the three bundled datasets are loaded from "
             ".ts/.arff/.tsv and through their loaders for every split and return form; all records are judged by "
             "TraceTsFile.tla. Non-trivial = every file.",
        assumptions=["compat shim", "values are matched to the precision the writer prints (1e-5 relative)",
                     "timestamps and multivariate .ts files are outside the bound"])


def replay(ctx, doc):
    return run(ctx)
