"""The Applicable(entry point, fault class) table of property C20 as executable (faulty call, control call)
pairs.  Each row: (entry, fault, faulty, control); both are functions of a context ctx (dict with y, X, n, ...)
returning a zero-argument callable performing the call and returning (result, estimator-or-None)."""
import numpy as np
import pandas as pd


def context(seed):
    rng = np.random.RandomState(seed)
    n = 18 + seed % 5
    idx = pd.RangeIndex(3, 3 + n)
    y = pd.Series(50 + np.arange(n) * 0.5 + rng.rand(n), index=idx)
    # valid exogenous data live on y's time points; the index OBJECT need not be the same (another index class, a name)
    xidx = [idx, pd.Index(np.arange(3, 3 + n)), pd.RangeIndex(3, 3 + n, name="time")][seed % 3]
    X = pd.DataFrame({"x": np.arange(n) * 1.0 + rng.rand(n)}, index=xidx)
    return {"y": y, "X": X, "n": n, "variant": seed}


def rows():
    from sktime.forecasting.naive import NaiveForecaster
    from sktime.forecasting.trend import PolynomialTrendForecaster
    from sktime.forecasting.theta import ThetaForecaster
    from sktime.forecasting.base import ForecastingHorizon
    from sktime.forecasting.compose import (EnsembleForecaster, TransformedTargetForecaster, StackingForecaster,
                                            MultiplexForecaster, make_reduction)
    from sktime.forecasting.model_selection import (SlidingWindowSplitter, ExpandingWindowSplitter, SingleWindowSplitter,
                                                    CutoffSplitter, temporal_train_test_split, ForecastingGridSearchCV)
    from sktime.forecasting.model_evaluation import evaluate
    from sktime.transformations.series.detrend import Detrender
    from sklearn.linear_model import LinearRegression
    from harness.scope import ZeroDimLinear
    R = []

    def add(entry, fault, faulty, control):
        R.append((entry, fault, faulty, control))

    # ------------------------------------------------------------------ forecasters: fit / predict / update
    def fcs():
        return {
            "naive": lambda: NaiveForecaster("mean", window_length=4),
            "poly": lambda: PolynomialTrendForecaster(degree=1),
            "reduce_recursive": lambda: make_reduction(ZeroDimLinear(), strategy="recursive", window_length=3),
            "ensemble": lambda: EnsembleForecaster([("a", NaiveForecaster()), ("b", PolynomialTrendForecaster())]),
            "pipeline": lambda: TransformedTargetForecaster([("d", Detrender()), ("f", NaiveForecaster())]),
            "tuner": lambda: ForecastingGridSearchCV(NaiveForecaster(), cv=SlidingWindowSplitter(fh=1, window_length=8),
                                                     param_grid={"strategy": ["last", "mean"]}),
        }
    def unsorted(c):
        k = c.get("variant", 0) % 3     # two neighbours swapped; the whole series reversed (a descending RangeIndex)
        if k == 0:
            return c["y"].iloc[[0, 2, 1] + list(range(3, c["n"]))]
        if k == 1:
            return c["y"].iloc[::-1]
        return pd.Series(c["y"].values, index=pd.RangeIndex(2 * c["n"] + 2, 2, -2))
    bad_y = {
        "unsorted_index": unsorted,
        "empty_index": lambda c: c["y"].iloc[:0],
        "multivariate_target": lambda c: pd.DataFrame({"a": c["y"], "b": c["y"]}),
        "array_target": lambda c: c["y"].values,
    }
    def _as(v, vals, float_ok=False):
        k = v % 3               # the same malformed horizon in every container a user may pass
        if k == 0 or (float_ok and k == 2):
            return list(vals)
        if k == 1:
            return np.array(vals)
        return pd.Index(vals)
    bad_fh = {
        "duplicate_horizon": lambda v=0: _as(v, [1, 2, 2]),
        "empty_horizon": lambda v=0: _as(v, []) if v % 3 != 2 else [],
        "fractional_horizon": lambda v=0: _as(v, [1, 2.5], float_ok=True),
        "wrongtype_horizon": lambda v=0: ["next week", (1, 2), {1: 2}][v % 3],
        # time points are what an ABSOLUTE horizon holds; passed bare (or as relative) they are of the wrong type
        "timepoints_as_relative_horizon": lambda v=0: [pd.period_range("2000-01", periods=2, freq="M"),
                                                       pd.date_range("2000-01-01", periods=2, freq="D")][v % 2],
    }
    for name, mk in fcs().items():
        for fault, by in bad_y.items():
            def faulty(c, mk=mk, by=by):
                f = mk()
                return lambda: (f.fit(by(c), fh=[1, 2]), f)

            def control(c, mk=mk):
                f = mk()
                return lambda: (f.fit(c["y"], fh=[1, 2]), f)
            add(name + ".fit", fault, faulty, control)
        for fault, bf in bad_fh.items():
            def faulty(c, mk=mk, bf=bf):
                f = mk()
                return lambda: (f.fit(c["y"], fh=bf(c["variant"])), f)

            def control(c, mk=mk):
                f = mk()
                return lambda: (f.fit(c["y"], fh=[1, 2]), f)
            add(name + ".fit", fault, faulty, control)

            def faulty_p(c, mk=mk, bf=bf):
                f = mk().fit(c["y"])
                return lambda: (f.predict(bf(c["variant"])), f)

            def control_p(c, mk=mk):
                f = mk().fit(c["y"])
                return lambda: (f.predict([1, 2]), f)
            add(name + ".predict", fault, faulty_p, control_p)

        def faulty_m(c, mk=mk):
            f = mk().fit(c["y"])
            return lambda: (f.predict(), f)

        def control_m(c, mk=mk):
            f = mk().fit(c["y"])
            return lambda: (f.predict([1]), f)
        add(name + ".predict", "missing_horizon", faulty_m, control_m)
        if name in ("naive", "poly", "reduce_recursive", "ensemble"):
            for fault in ("unsorted_index", "multivariate_target", "array_target"):
                def faulty_u(c, mk=mk, by=bad_y[fault]):
                    f = mk().fit(c["y"].iloc[:-4], fh=[1])
                    ynew = by({"y": c["y"].iloc[-4:], "n": 4, "variant": c["variant"]})
                    return lambda: (f.update(ynew, update_params=False), f)

                def control_u(c, mk=mk):
                    f = mk().fit(c["y"].iloc[:-4], fh=[1])
                    return lambda: (f.update(c["y"].iloc[-4:], update_params=False), f)
                add(name + ".update", fault, faulty_u, control_u)
    # exogenous data whose index differs from the target's
    for name, mk in (("reduce_recursive", fcs()["reduce_recursive"]),
                     ("ensemble", lambda: EnsembleForecaster([("a", NaiveForecaster()), ("b", NaiveForecaster("mean"))]))):
        def faulty_x(c, mk=mk):
            f = mk()
            Xb = c["X"].copy()
            Xb.index = Xb.index + 1
            return lambda: (f.fit(c["y"], X=Xb, fh=[1]), f)

        def control_x(c, mk=mk):
            f = mk()
            return lambda: (f.fit(c["y"], X=c["X"], fh=[1]), f)
        add(name + ".fit", "x_index_differs", faulty_x, control_x)

    for fault, mkX in (("x_index_superset", lambda c: pd.concat([c["X"], pd.DataFrame({"x": [0.0, 1.0]}, index=[c["X"].index[0] - 1, c["X"].index[-1] + 1])]).sort_index()),
                       ("x_index_differs", lambda c: c["X"].set_index(c["X"].index + 2)),
                       ("x_index_shorter", lambda c: c["X"].iloc[1:])):
        # a forecaster that ignores exogenous data must still refuse exogenous data that does not match the target
        add("naive.fit", fault, (lambda c, mkX=mkX: (lambda f=NaiveForecaster(): (f.fit(c["y"], X=mkX(c), fh=[1]), f))),
            (lambda c: (lambda f=NaiveForecaster(): (f.fit(c["y"], X=c["X"], fh=[1]), f))))

    def faulty_xs(c):
        f = fcs()["reduce_recursive"]()
        extra = pd.DataFrame({"x": [0.0, 1.0]}, index=[c["X"].index[0] - 1, c["X"].index[-1] + 1])
        Xb = pd.concat([c["X"], extra]).sort_index()            # covers y's index but is not equal to it
        return lambda: (f.fit(c["y"], X=Xb, fh=[1]), f)
    add("reduce_recursive.fit", "x_index_superset", faulty_xs, lambda c: control_xl(c))

    def faulty_xl(c):
        f = fcs()["reduce_recursive"]()
        return lambda: (f.fit(c["y"], X=c["X"].iloc[:-2], fh=[1]), f)

    def control_xl(c):
        f = fcs()["reduce_recursive"]()
        return lambda: (f.fit(c["y"], X=c["X"], fh=[1]), f)
    add("reduce_recursive.fit", "x_index_shorter", faulty_xl, control_xl)
    # horizon-dependent forecasters
    for strat in ("direct", "multioutput", "dirrec"):
        def mkr(strat=strat):
            return make_reduction(ZeroDimLinear(), strategy=strat, window_length=3)

        def faulty_nofh(c, mkr=mkr):
            f = mkr()
            return lambda: (f.fit(c["y"]), f)

        def control_fh(c, mkr=mkr):
            f = mkr()
            return lambda: (f.fit(c["y"], fh=[1, 2]), f)
        add("reduce_%s.fit" % strat, "missing_horizon", faulty_nofh, control_fh)

        # the same object has just had a fit rejected (window and horizon do not fit into the series): the horizon of
        # the rejected call is not one this forecaster may fall back on
        def faulty_stale(c, mkr=mkr):
            f = mkr()
            try:
                f.fit(c["y"].iloc[:4], fh=[1, 2, 3])
            except (ValueError, TypeError, NotImplementedError):
                pass
            return lambda: (f.fit(c["y"]), f)

        def control_stale(c, mkr=mkr):
            f = mkr()
            try:
                f.fit(c["y"].iloc[:4], fh=[1, 2, 3])
            except (ValueError, TypeError, NotImplementedError):
                pass
            return lambda: (f.fit(c["y"], fh=[1, 2]), f)
        add("reduce_%s.fit" % strat, "missing_horizon_after_rejected_fit", faulty_stale, control_stale)

        def faulty_diff(c, mkr=mkr):
            f = mkr().fit(c["y"], fh=[1, 2])
            return lambda: (f.predict([1, 3]), f)

        def control_same(c, mkr=mkr):
            f = mkr().fit(c["y"], fh=[1, 2])
            return lambda: (f.predict([1, 2]), f)
        add("reduce_%s.predict" % strat, "horizon_differs_from_fit", faulty_diff, control_same)

    def mkpipe():
        return TransformedTargetForecaster([("d", Detrender()), ("f", make_reduction(ZeroDimLinear(), strategy="direct", window_length=3))])

    def faulty_pd(c):
        f = mkpipe().fit(c["y"], fh=[1, 2])
        return lambda: (f.predict([1, 3]), f)

    def control_pd(c):
        f = mkpipe().fit(c["y"], fh=[1, 2])
        return lambda: (f.predict([1, 2]), f)
    add("pipeline.predict", "horizon_differs_from_fit", faulty_pd, control_pd)

    def faulty_stack(c):
        f = StackingForecaster([("a", NaiveForecaster()), ("b", PolynomialTrendForecaster())], final_regressor=LinearRegression())
        return lambda: (f.fit(c["y"]), f)

    def control_stack(c):
        f = StackingForecaster([("a", NaiveForecaster()), ("b", PolynomialTrendForecaster())], final_regressor=LinearRegression())
        return lambda: (f.fit(c["y"], fh=[1, 2]), f)
    add("stacking.fit", "missing_horizon", faulty_stack, control_stack)
    # ------------------------------------------------------------------ settings
    for fault, kw in (("window_nonpositive", dict(window_length=0)), ("window_negative", dict(window_length=-2)),
                      ("window_noninteger", dict(window_length=2.5)), ("window_larger_than_series", dict(window_length=500)),
                      ("sp_nonpositive", dict(sp=0)), ("sp_noninteger", dict(sp=1.5)), ("sp_wrongtype", dict(sp=[4])),
                      ("unknown_strategy", dict(strategy="best"))):
        def faulty_s(c, kw=kw):
            f = NaiveForecaster(**dict(dict(strategy="mean"), **kw))
            return lambda: (f.fit(c["y"]), f)

        def control_s(c):
            f = NaiveForecaster(strategy="mean", window_length=4, sp=2)
            return lambda: (f.fit(c["y"]), f)
        add("naive.fit", fault, faulty_s, control_s)

    # the window implied by the seasonal period (no window_length given) does not fit the series either
    def faulty_spw(c):
        f = NaiveForecaster(strategy="last", sp=c["n"] + 1 + c["variant"] % 3)
        return lambda: (f.fit(c["y"]), f)

    def control_spw(c):
        f = NaiveForecaster(strategy="last", sp=c["n"] - 1)
        return lambda: (f.fit(c["y"]), f)
    add("naive.fit", "seasonal_window_larger_than_series", faulty_spw, control_spw)
    for fault, kw in (("sp_nonpositive", dict(sp=0)), ("sp_noninteger", dict(sp=2.5)), ("sp_wrongtype", dict(sp=[4]))):
        def faulty_t(c, kw=kw):
            f = ThetaForecaster(**kw)
            return lambda: (f.fit(c["y"]), f)

        def control_t(c):
            f = ThetaForecaster(sp=1)
            return lambda: (f.fit(c["y"]), f)
        add("theta.fit", fault, faulty_t, control_t)
    for fault, kw in (("window_nonpositive", dict(window_length=0)), ("window_noninteger", dict(window_length=1.5)),
                      ("window_larger_than_series", dict(window_length=400))):
        def faulty_r(c, kw=kw):
            f = make_reduction(ZeroDimLinear(), strategy="recursive", **kw)
            return lambda: (f.fit(c["y"], fh=[1]), f)

        def control_r(c):
            f = make_reduction(ZeroDimLinear(), strategy="recursive", window_length=3)
            return lambda: (f.fit(c["y"], fh=[1]), f)
        add("reduce_recursive.fit", fault, faulty_r, control_r)

    def faulty_rs(c):
        return lambda: (make_reduction(ZeroDimLinear(), strategy="iterated", window_length=3), None)

    def control_rs(c):
        return lambda: (make_reduction(ZeroDimLinear(), strategy="recursive", window_length=3), None)
    add("make_reduction", "unknown_strategy", faulty_rs, control_rs)
    # ------------------------------------------------------------------ splitters
    spl = {"sliding": lambda **k: SlidingWindowSplitter(**dict(dict(fh=[1, 2], window_length=4, step_length=2), **k)),
           "expanding": lambda **k: ExpandingWindowSplitter(**dict(dict(fh=[1, 2], initial_window=4, step_length=2), **k))}
    for sname, mk in spl.items():
        wl = "window_length" if sname == "sliding" else "initial_window"
        for fault, kw in (("window_nonpositive", {wl: 0}), ("window_noninteger", {wl: 2.5}), ("window_larger_than_series", {wl: 300}),
                          ("window_larger_than_series_not_starting_with_window", {wl: 300, "start_with_window": False}),
                          ("step_nonpositive", {"step_length": 0}), ("step_noninteger", {"step_length": 1.5}),
                          ("duplicate_horizon", {"fh": [1, 1]}), ("empty_horizon", {"fh": []}),
                          ("fractional_horizon", {"fh": [1.5]}), ("wrongtype_horizon", {"fh": "x"})):
            def faulty_sp(c, mk=mk, kw=kw):
                return lambda: (list(mk(**kw).split(c["y"])), None)

            def control_sp(c, mk=mk):
                return lambda: (list(mk().split(c["y"])), None)
            add(sname + ".split", fault, faulty_sp, control_sp)

        def faulty_us(c, mk=mk):
            return lambda: (list(mk().split(unsorted(c))), None)

        def control_us(c, mk=mk):
            return lambda: (list(mk().split(c["y"])), None)
        add(sname + ".split", "unsorted_index", faulty_us, control_us)

    def faulty_iw(c):
        return lambda: (list(SlidingWindowSplitter(fh=[1], window_length=5, initial_window=3).split(c["y"])), None)

    def control_iw(c):
        return lambda: (list(SlidingWindowSplitter(fh=[1], window_length=3, initial_window=5).split(c["y"])), None)
    add("sliding.split", "initial_window_not_larger_than_window", faulty_iw, control_iw)

    def faulty_iwl(c):
        return lambda: (list(SlidingWindowSplitter(fh=[1, 4], window_length=3, initial_window=c["n"] - 2).split(c["y"])), None)

    def control_iwl(c):
        return lambda: (list(SlidingWindowSplitter(fh=[1, 4], window_length=3, initial_window=c["n"] - 6).split(c["y"])), None)
    add("sliding.split", "initial_window_larger_than_series", faulty_iwl, control_iwl)

    def faulty_cs(c):
        return lambda: (list(CutoffSplitter(np.array([3, c["n"] + 2]), fh=[1], window_length=2).split(c["y"])), None)

    def control_cs(c):
        return lambda: (list(CutoffSplitter(np.array([3, c["n"] - 3]), fh=[1], window_length=2).split(c["y"])), None)
    add("cutoff.split", "cutoff_beyond_series", faulty_cs, control_cs)
    # ------------------------------------------------------------------ evaluate / tuning / train-test split / horizon
    def ev(c, **kw):
        a = dict(forecaster=NaiveForecaster(), cv=ExpandingWindowSplitter(fh=[1], initial_window=10), y=c["y"])
        a.update(kw)
        return lambda: (evaluate(**a), None)
    for fault, kwf in (("unknown_strategy", lambda c: dict(strategy=["restart", "Refit", "UPDATE", "refit ", ""][c["variant"] % 5])),
                       ("multivariate_target", lambda c: dict(y=pd.DataFrame({"a": c["y"], "b": c["y"]}))),
                       ("unsorted_index", lambda c: dict(y=unsorted(c))),
                       # exogenous data that agree with the target on every training window and differ only at the end
                       ("x_index_differs", lambda c: dict(X=c["X"].set_axis(list(c["X"].index[:-1]) + [c["X"].index[-1] + 1 + c["variant"] % 2]))),
                       ("x_index_superset", lambda c: dict(X=pd.concat([c["X"], c["X"].iloc[-2:].set_axis([c["X"].index[-1] + 1, c["X"].index[-1] + 2])]))),
                       ("start_with_window_false", lambda c: dict(cv=ExpandingWindowSplitter(fh=[1], initial_window=10, start_with_window=False))),
                       ("scoring_not_callable", lambda c: dict(scoring="mape")),
                       ("window_larger_than_series", lambda c: dict(cv=ExpandingWindowSplitter(fh=[1], initial_window=300)))):
        add("evaluate", fault, (lambda c, kwf=kwf: ev(c, **kwf(c))), (lambda c: ev(c)))

    def tuner(c, **kw):
        a = dict(forecaster=NaiveForecaster(), cv=SlidingWindowSplitter(fh=1, window_length=8), param_grid={"strategy": ["last", "mean"]})
        a.update(kw)
        ydata = a.pop("y", c["y"])
        f = ForecastingGridSearchCV(**a)
        return lambda: (f.fit(ydata), f)
    for fault, kwf in (("unknown_strategy", lambda c: dict(param_grid={"strategy": ["last", "best"]})),
                       ("window_larger_than_series", lambda c: dict(cv=SlidingWindowSplitter(fh=1, window_length=300))),
                       ("multivariate_target", lambda c: dict(y=pd.DataFrame({"a": c["y"], "b": c["y"]}))),
                       ("cv_not_a_splitter", lambda c: dict(cv=3))):
        add("tuner.fit", fault, (lambda c, kwf=kwf: tuner(c, **kwf(c))), (lambda c: tuner(c)))
    for fault, kwf in (("horizon_and_size_both_given", lambda c: dict(fh=ForecastingHorizon([1, 2]), test_size=3)),
                       ("insample_horizon", lambda c: dict(fh=ForecastingHorizon([-1, 1]))),
                       ("x_index_differs", lambda c: dict(
                           fh=(ForecastingHorizon([1, 2]) if c["variant"] % 2 == 0
                               else ForecastingHorizon(pd.Index(list(c["y"].index[-2:])), is_relative=False)),
                           X=c["X"].iloc[1:]))):
        add("temporal_train_test_split", fault, (lambda c, kwf=kwf: (lambda: (temporal_train_test_split(c["y"], **kwf(c)), None))),
            (lambda c: (lambda: (temporal_train_test_split(c["y"], fh=ForecastingHorizon([1, 2])), None))))
    for fault, mkv in (("duplicate_horizon", lambda: ([1, 1], True)), ("fractional_horizon", lambda: (np.array([0.5, 1]), True)),
                       ("wrongtype_horizon", lambda: ({1, 2}, True)), ("wrongtype_is_relative", lambda: ([1, 2], "yes")),
                       ("timepoints_as_relative_horizon", lambda: (pd.period_range("2000-01", periods=2, freq="M"), True)),
                       ("none_horizon", lambda: (None, True))):
        add("ForecastingHorizon", fault, (lambda c, mkv=mkv: (lambda: (ForecastingHorizon(mkv()[0], is_relative=mkv()[1]), None))),
            (lambda c: (lambda: (ForecastingHorizon([1, 2], is_relative=True), None))))
    # ------------------------------------------------------------------ ill-formed composites
    N, P = NaiveForecaster, PolynomialTrendForecaster
    comp = {
        "ensemble": (lambda members: EnsembleForecaster(members), [("a", N()), ("b", P())]),
        "stacking": (lambda members: StackingForecaster(members, final_regressor=LinearRegression()), [("a", N()), ("b", P())]),
        "multiplexer": (lambda members: MultiplexForecaster(members, selected_forecaster=members[0][0] if members else None),
                        [("a", N()), ("b", P())]),
    }
    bad_members = {
        "composite_empty": lambda: [],
        "composite_duplicate_names": lambda: [("a", N()), ("a", P())],
        "composite_name_with_dunder": lambda: [("a__b", N()), ("c", P())],
        "composite_name_clashes_with_parameter": lambda: [("forecasters", N()), ("c", P())],
        "composite_member_not_a_forecaster": lambda: [("a", N()), ("b", LinearRegression())],
    }
    for cname, (mk, good) in comp.items():
        for fault, bm in bad_members.items():
            def faulty_c(c, mk=mk, bm=bm):
                f = mk(bm())
                return lambda: (f.fit(c["y"], fh=[1, 2]), f)

            def control_c(c, mk=mk, good=good):
                f = mk([(n, type(e)()) for n, e in good])
                return lambda: (f.fit(c["y"], fh=[1, 2]), f)
            add(cname + ".fit", fault, faulty_c, control_c)
    # a component named like an OPTIONAL constructor argument of its composite
    for cname, (mk, good) in comp.items():
        clash = {"ensemble": "aggfunc", "stacking": "n_jobs", "multiplexer": "selected_forecaster"}[cname]

        def faulty_o(c, mk=mk, clash=clash):
            f = mk([(clash, N()), ("c", P())])
            return lambda: (f.fit(c["y"], fh=[1, 2]), f)

        def control_o(c, mk=mk, good=good):
            f = mk([(n, type(e)()) for n, e in good])
            return lambda: (f.fit(c["y"], fh=[1, 2]), f)
        add(cname + ".fit", "composite_name_clashes_with_optional_parameter", faulty_o, control_o)
    for fault, steps in (("composite_step_not_a_transformer", lambda: [("t", N()), ("f", N())]),
                         ("composite_last_step_not_a_forecaster", lambda: [("d", Detrender()), ("f", Detrender())]),
                         ("composite_duplicate_names", lambda: [("d", Detrender()), ("d", N())]),
                         ("composite_name_with_dunder", lambda: [("d__x", Detrender()), ("f", N())]),
                         ("composite_name_clashes_with_parameter", lambda: [("steps", Detrender()), ("f", N())])):
        def faulty_p(c, steps=steps):
            f = TransformedTargetForecaster(steps())
            return lambda: (f.fit(c["y"], fh=[1]), f)

        def control_pp(c):
            f = TransformedTargetForecaster([("d", Detrender()), ("f", N())])
            return lambda: (f.fit(c["y"], fh=[1]), f)
        add("pipeline.fit", fault, faulty_p, control_pp)

        # the same ill-formed steps given to an object that was well-formed, and fitted, before
        def faulty_p2(c, steps=steps):
            f = TransformedTargetForecaster([("d", Detrender()), ("f", N())])
            f.fit(c["y"], fh=[1])
            f.set_params(steps=steps())
            return lambda: (f.fit(c["y"], fh=[1]), f)
        add("pipeline.fit", fault + "_after_valid_fit", faulty_p2, control_pp)

    def faulty_sel(c):
        f = MultiplexForecaster([("a", N()), ("b", P())], selected_forecaster="zzz")
        return lambda: (f.fit(c["y"], fh=[1]), f)

    def control_sel(c):
        f = MultiplexForecaster([("a", N()), ("b", P())], selected_forecaster="b")
        return lambda: (f.fit(c["y"], fh=[1]), f)
    add("multiplexer.fit", "unknown_selected_forecaster", faulty_sel, control_sel)
    return R
