#!/usr/bin/env python3
"""Confirm a seeded change and run the relevant check(s) against it.
usage: seedcheck.py CXX k [extra check ids...]
 1. in the scratch worktree /tmp/wt_CXX: demo passes clean, fails patched, pinned suite 108 passed
 2. apply the patch to /repo, run ./check <ids> --tier quick, revert
 3. store /verif/seeded/CXX-k/{patch.diff,demo.py,meta.json}
"""
import json, os, shutil, subprocess, sys

pid, k = sys.argv[1], sys.argv[2]
checks = [pid] + sys.argv[3:]
rnd = os.environ.get("SEED_ROUND", "1")
src = ("/tmp/seed_%s/%s" if rnd == "1" else "/tmp/seed" + rnd + "_%s/%s") % (pid, k)
wt = ("/tmp/wt_%s" if rnd == "1" else "/tmp/wt" + rnd + "_%s") % pid
tag = k if rnd == "1" else "r%s-%s" % (rnd, k)
env = dict(os.environ, VERIF_REPO=wt, PYTHONPATH="/tmp/sk_compat")


def sh(cmd, **kw):
    return subprocess.run(cmd, shell=True, stdout=subprocess.PIPE, stderr=subprocess.STDOUT, text=True, **kw)


def demo():
    r = sh("cd /tmp && /venv/bin/python %s/demo.py" % src, env=env)
    return r.returncode, r.stdout.strip().splitlines()[-1:] if r.stdout.strip() else []


meta = json.load(open(src + "/meta.json"))
res = {"ran": []}
assert sh("git -C %s status --porcelain" % wt).stdout.strip() == "", "worktree dirty"
rc0, out0 = demo()
res["demo_clean"] = [rc0, out0]
a = sh("git -C %s apply %s/patch.diff" % (wt, src))
res["apply_wt"] = a.returncode
rc1, out1 = demo()
res["demo_patched"] = [rc1, out1]
t = sh("cd %s && timeout 900 /venv/bin/python -m pytest -q -p no:cacheprovider --timeout=900 --continue-on-collection-errors 2>&1 | tail -1" % wt)
res["tests_patched"] = t.stdout.strip()
sh("git -C %s checkout -- ." % wt)
confirmed = rc0 == 0 and rc1 != 0 and "108 passed" in res["tests_patched"] and a.returncode == 0
res["confirmed"] = confirmed
# run checks on /repo
assert sh("git -C /repo status --porcelain").stdout.strip() == "", "repo dirty"
ap = sh("git -C /repo apply %s/patch.diff" % src)
if ap.returncode != 0 and os.path.exists("/verif/seeded/%s-%s/patch.rebased.diff" % (pid, tag)):
    ap = sh("git -C /repo apply /verif/seeded/%s-%s/patch.rebased.diff" % (pid, tag))
res["apply_repo"] = ap.returncode
if ap.returncode != 0:
    print("   patch does not apply to /repo HEAD (repo moved by fix: commits); put a rebased patch at "
          "/verif/seeded/%s-%s/patch.rebased.diff" % (pid, k))
det = {}
if ap.returncode == 0:
    sh("git -C /repo reset -q")
    for c in checks:
        r = sh("cd /verif && ./check %s --tier quick" % c)
        viol = [l for l in r.stdout.splitlines() if l.startswith("VIOLATION")]
        det[c] = {"rc": r.returncode, "violations": len(viol),
                  "detail": next((l.strip()[:300] for l in r.stdout.splitlines() if "detail" in l), ""),
                  "tail": r.stdout.strip().splitlines()[-1:][0][:300] if r.stdout.strip() else ""}
sh("git -C /repo checkout -- . && git -C /repo clean -fdq sktime")
sh("find /verif/replays -name '*.json' -delete")
res["detected_by"] = det
dst = "/verif/seeded/%s-%s" % (pid, tag)
os.makedirs(dst, exist_ok=True)
shutil.copy(src + "/patch.diff", dst)
shutil.copy(src + "/demo.py", dst)
meta["confirmation"] = res
meta["what_i_ran"] = "demo.py in scratch worktree clean/patched + pinned suite; then patch applied to /repo, ./check %s --tier quick, reverted" % " ".join(checks)
json.dump(meta, open(dst + "/meta.json", "w"), indent=1)
print(pid, tag, "confirmed" if confirmed else "NOT-CONFIRMED %s" % res, "|",
      {c: (d["rc"], d["violations"]) for c, d in det.items()}, "|", meta.get("title", "")[:70])
for c, d in det.items():
    if d["rc"] != 1:
        print("   MISSED by", c, d["tail"])
    else:
        print("   caught by", c, ":", d["detail"][:200])
