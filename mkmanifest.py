#!/usr/bin/env python3-vt
"""Regenerates MANIFEST.json from the table below (keeps it schema-valid at all times)."""
import json

ALL = ["C%02d" % i for i in range(1, 21)]

CHECKS = {
 "C01": dict(
    technique="TLA+ spec (Splitters.tla) model-checked exhaustively by TLC; TLC-emitted vectors replayed into the real splitters; recorded outcomes trace-validated by TLC (TraceSplitters.tla)",
    text="TLC proves every clause of C01 on the specified outcome for every configuration within the cfg constants (n<=8/10, fh subset of 1..4, window<=4/5, step<=3/4, initial window, both start modes, cutoff sets, train/test sizes); the real splitters are replayed on that complete enumeration and compared for equality with the specified outcome, and random larger configurations (n<=120/300) are validated as traces against the same specification with every clause re-evaluated on the observed splits.",
    ref="4/C01", note="Trusts TLC, the compat shim emulating removed numpy/pandas/sklearn names, and that the documented reading of start_with_window=False / SingleWindowSplitter (DESIGN 4/C01 Reading) is the intended one."),
 "C02": dict(
    technique="TLA+ spec (Horizon.tla) model-checked exhaustively by TLC; TLC-emitted vectors replayed into the real ForecastingHorizon; recorded observations trace-validated by TLC (TraceHorizon.tla)",
    text="TLC proves the C02 clauses (stored sorted, absolute = cutoff + steps, round trip, partition at step 0, predicates, indexer = steps - 1, rejects-not-coerces) on the specification for every ordered duplicate-free selection of up to 3/4 steps from -3..4 in every container kind, relative and absolute, several cutoffs, and every injected fault (duplicate, fractional, unsupported type); the real ForecastingHorizon / check_fh is replayed on that complete enumeration and compared for equality, and random horizons with |step|,|cutoff| up to 1e6 are validated as traces with every clause re-evaluated on the observed values.",
    ref="4/C02", note="Trusts TLC and the compat shim (pd.Int64Index emulated by pd.Index; non-integer plain Index never generated). Integral floats and bools are not treated as faults (DESIGN 4/C02 Reading)."),
}

NA_REASON = "check not built yet in this round; the TLA+ module for it is planned in DESIGN.md section 4 (will be claimed once its check runs clean on the unchanged tree)"

def main():
    checks = []
    for pid in ALL:
        if pid not in CHECKS:
            continue
        c = CHECKS[pid]
        checks.append({
            "property_id": pid,
            "quick_cmd": "./check %s --tier quick" % pid,
            "thorough_cmd": "./check %s --tier thorough" % pid,
            "evidence_file": "/verif/evidence/%s.json" % pid,
            "replay_cmd_template": "./check %s --replay {path}" % pid,
            "engine": "tlc",
            "level_claimed": {"category": "model_checking", "text": c["text"], "design_ref": c["ref"]},
            "level_note": c["note"],
            "technique": c["technique"],
        })
    m = {
        "version": 1,
        "setup_cmd": "./setup.sh",
        "hooks": {"guard": "SKTIME_VERIF", "enable": "no hooks are installed in /repo: observation is through the public API and recording stub estimators (DESIGN.md 2.3); SKTIME_VERIF is reserved",
                  "baseline_off_cmd": "cd /repo && /venv/bin/python -m pytest -ra -q -p no:cacheprovider --timeout=900 --continue-on-collection-errors",
                  "source_commits": [], "add_only": True},
        "engines": [{"name": "tlc", "path": "/verif/harness/tlc.py", "serves_properties": [c["property_id"] for c in checks],
                     "kind_free_text": "TLC 1.8 explicit-state model checking of /verif/spec/*.tla plus trace validation of recorded implementation behaviour"}],
        "checks": checks,
        "not_applicable": [{"property_id": p, "reason": NA_REASON} for p in ALL if p not in CHECKS],
        "notes": "All checks: ./check <ID> --tier quick|thorough; exit 0 held, 1 VIOLATION, 2 machinery failure. Genuine defects repaired by fix: commits or listed open are in /verif/known_findings.json.",
    }
    json.dump(m, open("/verif/MANIFEST.json", "w"), indent=1)
    import jsonschema
    jsonschema.validate(m, json.load(open("/root/.vp/MANIFEST.schema.json")))
    print("MANIFEST ok:", len(checks), "checks")

if __name__ == "__main__":
    main()
