#!/usr/bin/env python3
"""Prints the markdown tables of seeded (rounds 2, 3) and benign changes from /verif/seeded and /verif/benign."""
import glob, json, os, re, sys

def row(cells):
    return "| " + " | ".join(str(c).replace("|", "/").replace("\n", " ") for c in cells) + " |"

for rnd in ("r2", "r3", "r4", "r5", "r6", "r7"):
    print("\n#### Round %s\n" % rnd[1])
    print(row(["Seed", "Change", "Needs", "Caught by"])); print("|---|---|---|---|")
    for d in sorted(glob.glob("/verif/seeded/C*-%s-*" % rnd)):
        m = json.load(open(d + "/meta.json"))
        det = m.get("confirmation", {}).get("detected_by", {})
        by = [c for c, v in det.items() if v.get("rc") == 1]
        note = ", ".join(by) if by else "-- (see text)"
        print(row([os.path.basename(d), m.get("title", "")[:110], str(m.get("needs", ""))[:150], note]))
print("\n#### Behaviour-preserving changes\n")
print(row(["Id", "Change", "Checks run", "Alarms"])); print("|---|---|---|---|")
for d in sorted(glob.glob("/verif/benign/C*-*")):
    m = json.load(open(d + "/meta.json"))
    ch = m.get("confirmation", {}).get("checks", {})
    al = [c for c, v in ch.items() if v.get("rc") != 0]
    print(row([os.path.basename(d), m.get("title", "")[:120], " ".join(ch), ", ".join(al) or "none"]))
