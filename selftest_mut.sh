#!/bin/sh
# usage: selftest_mut.sh <ID> <file-relative-to-repo> <sed-expr>   -- applies, runs quick check, reverts
ID=$1; F=$2; EXPR=$3
cd /repo && git diff --quiet || { echo "repo dirty"; exit 2; }
sed -i "$EXPR" "/repo/$F"
if git -C /repo diff --quiet; then echo "MUTATION DID NOT APPLY"; exit 2; fi
cd /verif && ./check $ID --tier quick > /tmp/mut_$ID.log 2>&1; rc=$?
git -C /repo checkout -- .
echo "rc=$rc $(grep -c '^VIOLATION' /tmp/mut_$ID.log) violations; $(grep -m1 'detail' /tmp/mut_$ID.log | cut -c1-250)"
[ $rc -eq 2 ] && tail -5 /tmp/mut_$ID.log
exit 0
