#!/usr/bin/env python3
"""Run checks against a behaviour-preserving change (false-alarm control).
usage: benigncheck.py CXX k [extra check ids...]
 1. in the agent's scratch worktree /tmp/wtb_CXX: demo passes clean and patched, pinned suite 108 passed
 2. apply the patch to the scratch worktree /tmp/wt_ben, run ./check <ids> --tier quick there (VERIF_REPO), revert
 3. store /verif/benign/CXX-k/{patch.diff,demo.py,meta.json}; any VIOLATION is a false alarm to be corrected
"""
import json, os, shutil, subprocess, sys

pid, k = sys.argv[1], sys.argv[2]
checks = [pid] + sys.argv[3:]
src = "/tmp/benign_%s/%s" % (pid, k)
wt = "/tmp/wtb_%s" % pid
app = "/tmp/wt_ben"
env = dict(os.environ, VERIF_REPO=wt, PYTHONPATH="/tmp/sk_compat")


def sh(cmd, **kw):
    return subprocess.run(cmd, shell=True, stdout=subprocess.PIPE, stderr=subprocess.STDOUT, text=True, **kw)


def demo():
    r = sh("cd /tmp && /venv/bin/python %s/demo.py" % src, env=env)
    return r.returncode, r.stdout.strip().splitlines()[-1:] if r.stdout.strip() else []


meta = json.load(open(src + "/meta.json"))
res = {}
assert sh("git -C %s status --porcelain" % wt).stdout.strip() == "", "worktree dirty"
res["demo_clean"] = demo()
a = sh("git -C %s apply %s/patch.diff" % (wt, src))
res["apply_wt"] = a.returncode
res["demo_patched"] = demo()
t = sh("cd %s && timeout 900 /venv/bin/python -m pytest -q -p no:cacheprovider --timeout=900 --continue-on-collection-errors 2>&1 | tail -1" % wt)
res["tests_patched"] = t.stdout.strip()
sh("git -C %s checkout -- ." % wt)
ok = res["demo_clean"][0] == 0 and res["demo_patched"][0] == 0 and "108 passed" in res["tests_patched"] and a.returncode == 0
res["confirmed_benign_by_demo_and_suite"] = ok
assert sh("git -C %s status --porcelain" % app).stdout.strip() == "", "apply worktree dirty"
ap = sh("git -C %s apply %s/patch.diff" % (app, src))
res["apply"] = ap.returncode
det = {}
if ap.returncode == 0:
    for c in checks:
        r = sh("cd /verif && VERIF_WORK_SUFFIX=_ben VERIF_REPO=%s ./check %s --tier quick" % (app, c))
        viol = [l for l in r.stdout.splitlines() if l.startswith("VIOLATION")]
        det[c] = {"rc": r.returncode, "violations": len(viol),
                  "detail": next((l.strip()[:400] for l in r.stdout.splitlines() if "detail" in l), ""),
                  "tail": r.stdout.strip().splitlines()[-1:][0][:300] if r.stdout.strip() else ""}
sh("git -C %s checkout -- . && git -C %s clean -fdq sktime" % (app, app))
res["checks"] = det
dst = "/verif/benign/%s-%s" % (pid, k)
os.makedirs(dst, exist_ok=True)
shutil.copy(src + "/patch.diff", dst)
shutil.copy(src + "/demo.py", dst)
meta["confirmation"] = res
json.dump(meta, open(dst + "/meta.json", "w"), indent=1)
print(pid, k, "benign-confirmed" if ok else "NOT-CONFIRMED %s" % res, "|", {c: (d["rc"], d["violations"]) for c, d in det.items()}, "|", meta.get("title", "")[:80])
for c, d in det.items():
    if d["rc"] != 0:
        print("   ALARM from", c, ":", d["detail"][:300] or d["tail"])
