#!/usr/bin/env python3
"""usage: benignrerun.py <scratch worktree of /repo> <work suffix> <id> [<id> ...]

Re-runs the recorded checks of stored behaviour-preserving changes (/verif/benign/<id>) on the current machinery:
applies the stored patch to the scratch worktree (outside /repo and /verif), runs the checks with VERIF_REPO pointing
at it, reverts, and rewrites the check results in meta.json. Any alarm is a false alarm to be corrected."""
import json, subprocess, sys
wt, suf, ids = sys.argv[1], sys.argv[2], sys.argv[3:]
def sh(c): return subprocess.run(c, shell=True, stdout=subprocess.PIPE, stderr=subprocess.STDOUT, text=True)
for bid in ids:
    d = "/verif/benign/%s" % bid
    meta = json.load(open(d + "/meta.json"))
    checks = list(meta["confirmation"]["checks"].keys())
    assert sh("git -C %s status --porcelain" % wt).stdout.strip() == "", "dirty " + wt
    ap = sh("git -C %s apply %s/patch.diff" % (wt, d))
    det = {}
    if ap.returncode == 0:
        for c in checks:
            r = sh("cd /verif && VERIF_WORK_SUFFIX=%s VERIF_REPO=%s ./check %s --tier quick" % (suf, wt, c))
            viol = [l for l in r.stdout.splitlines() if l.startswith("VIOLATION")]
            det[c] = {"rc": r.returncode, "violations": len(viol),
                      "detail": next((l.strip()[:400] for l in r.stdout.splitlines() if "detail" in l), ""),
                      "tail": r.stdout.strip().splitlines()[-1:][0][:300] if r.stdout.strip() else ""}
    sh("git -C %s checkout -- . && git -C %s clean -fdq sktime" % (wt, wt))
    meta["confirmation"]["apply"] = ap.returncode
    meta["confirmation"]["checks"] = det
    json.dump(meta, open(d + "/meta.json", "w"), indent=1)
    print(bid, "apply", ap.returncode, {c: (v["rc"], v["violations"]) for c, v in det.items()}, flush=True)
    for c, v in det.items():
        if v["rc"] != 0:
            print("   ALARM from", c, ":", v["detail"][:300] or v["tail"], flush=True)
