------------------------------ MODULE MCBenchmark ------------------------------
(* Run sequences: a first run with any options and any crash point, then re-runs with the same      *)
(* options (possibly crashing again), an identical further run, or a run with overwriting enabled.   *)
EXTENDS Benchmark, Json
CONSTANTS MaxRuns, EmitVectors
VARIABLES store, hist
vars == <<store, hist>>
Opts == { o \in [owp : BOOLEAN, pot : BOOLEAN, sf : BOOLEAN, owf : BOOLEAN, ns : (NS - 1)..NS] : (o.owf => o.sf) /\ o.ns >= 1 }
Init == store = EmptyStore /\ hist = << >>
Snapshot(r) == [pred |-> { <<x[1][1], x[1][2], x[1][3], x[2], r.st.pred[x]>> : x \in DOMAIN r.st.pred },
                fitted |-> { <<k[1], k[2], k[3], r.st.fitted[k]>> : k \in DOMAIN r.st.fitted },
                S |-> r.st.master.S, D |-> r.st.master.D,
                fits |-> r.fits, preds |-> { <<x[1][1], x[1][2], x[1][3], x[2]>> : x \in r.preds },
                calls |-> r.calls, crashed |-> r.dead]
DoRun(o, crash) ==
    /\ Len(hist) < MaxRuns
    /\ LET r == RunEffect(store, o, crash, Len(hist) + 1) IN
       /\ store' = r.st
       /\ hist' = Append(hist, [o |-> o, crash |-> crash, snap |-> Snapshot(r), before |-> store])
First == hist = << >> /\ \E o \in Opts : ~o.owp /\ ~o.owf /\ \E c \in 0..NCalls(o) : DoRun(o, c)
Again == /\ hist # << >>
         /\ LET o == [hist[1].o EXCEPT !.ns = hist[Len(hist)].o.ns] IN        \* strategies only ever join
            \/ \E c \in 0..NCalls(o) : (c = 0 \/ Len(hist) = 1) /\ DoRun(o, c)          \* resume / identical re-run
            \/ (~hist[Len(hist)].snap.crashed /\ DoRun([o EXCEPT !.owp = TRUE], 0))       \* overwrite predictions
            \/ (~hist[Len(hist)].snap.crashed /\ ~o.pot /\ DoRun([o EXCEPT !.pot = TRUE], 0))   \* now also the train part
            \/ (~hist[Len(hist)].snap.crashed /\ ~o.sf /\ \E c \in {0, 3} : DoRun([o EXCEPT !.sf = TRUE], c))  \* now also save the fitted strategies
            \/ (~hist[Len(hist)].snap.crashed /\ o.sf /\ DoRun([o EXCEPT !.owf = TRUE], 0))     \* re-save the fitted strategies
            \/ (~hist[Len(hist)].snap.crashed /\ o.ns < NS /\ \E c \in {0, 2} : DoRun([o EXCEPT !.ns = NS], c)) \* more strategies join
Next == First \/ Again
Spec == Init /\ [][Next]_vars

Last == hist[Len(hist)]
NoOverwrite(h) == ~h.o.owp /\ ~h.o.owf
\* completed work is neither recomputed nor modified by a run without overwriting
Inv_NoRecomputeWhenComplete ==
    (hist # << >> /\ NoOverwrite(Last)) =>
        \A k \in RunKeys(Last.o) : Complete(Last.before, k, Last.o) => (k \notin Last.snap.fits /\ \A p \in {"train", "test"} : <<k[1], k[2], k[3], p>> \notin Last.snap.preds)
Inv_CompletedUntouched ==
    (hist # << >> /\ NoOverwrite(Last)) =>
        \A x \in DOMAIN Last.before.pred : Has(store.pred, x) /\ store.pred[x] = Last.before.pred[x]
\* a successful run leaves exactly one record per key and requested part
Inv_ExactlyOneRecordPerKey ==
    (hist # << >> /\ ~Last.snap.crashed) =>
        \A k \in RunKeys(Last.o) : Has(store.pred, <<k, "test">>) /\ (Last.o.pot => Has(store.pred, <<k, "train">>))
                            /\ (Last.o.sf => Has(store.fitted, k))
\* after any successful run the store equals that of an uninterrupted run: same records, and the persisted
\* registry lists every strategy and dataset, so that reading back yields every record
Inv_FinalEqualsUninterrupted ==
    (hist # << >> /\ ~Last.snap.crashed) =>
        /\ 1..Last.o.ns \subseteq store.master.S /\ store.master.D = 1..ND
        /\ \A f \in 1..NF : Readable(store, f, "test") /\ (Last.o.pot => Readable(store, f, "train"))
\* exactly the missing records are produced by a resumed run
Inv_ExactlyMissingProduced ==
    (hist # << >> /\ NoOverwrite(Last) /\ ~Last.snap.crashed) =>
        \A k \in RunKeys(Last.o) : (k \in Last.snap.fits) = ~Complete(Last.before, k, Last.o)
\* a further identical run performs no fits
Inv_IdenticalRerunDoesNoFits ==
    (Len(hist) >= 2 /\ NoOverwrite(Last) /\ ~hist[Len(hist) - 1].snap.crashed /\ hist[Len(hist) - 1].o = Last.o)
        => Last.snap.calls = 0
\* a run with overwriting enabled recomputes every record
Inv_OverwriteRecomputesAll ==
    (hist # << >> /\ Last.o.owp /\ ~Last.snap.crashed) =>
        \A k \in RunKeys(Last.o) : k \in Last.snap.fits /\ store.pred[<<k, "test">>] = Len(hist)
Emit == (EmitVectors /\ Len(hist) = MaxRuns) =>
    PrintT(ToJson([runs |-> [i \in DOMAIN hist |-> [o |-> hist[i].o, crash |-> hist[i].crash, snap |-> hist[i].snap]]]))
=============================================================================
