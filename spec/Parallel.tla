------------------------------ MODULE Parallel ------------------------------
(***************************************************************************)
(* joblib task dispatch as sktime uses it (property C12, scheduling part).   *)
(* Tasks 1..T are submitted in order while at most W are outstanding; K       *)
(* worker threads take submitted tasks first-in-first-out; any RUNNING task   *)
(* may complete next; a completion lets the dispatcher submit the next task.   *)
(* Results are stored by submission index.  `order` records the completion     *)
(* order, which the binding forces on real threads.                            *)
(***************************************************************************)
EXTENDS Integers, Sequences, FiniteSets, TLC, Json
CONSTANTS T, K, W, EmitVectors
VARIABLES submitted, running, done, order, results
vars == <<submitted, running, done, order, results>>
Init == submitted = 0 /\ running = {} /\ done = {} /\ order = << >> /\ results = [i \in 1..T |-> 0]
Outstanding == submitted - Cardinality(done)
Submit == /\ submitted < T /\ Outstanding < W
          /\ submitted' = submitted + 1 /\ UNCHANGED <<running, done, order, results>>
\* a free worker takes the oldest submitted task that is not yet running or done
Waiting == { i \in 1..submitted : i \notin running /\ i \notin done }
Start == /\ Cardinality(running) < K /\ Waiting # {}
         /\ LET i == CHOOSE x \in Waiting : \A y \in Waiting : x <= y IN running' = running \cup {i}
         /\ UNCHANGED <<submitted, done, order, results>>
Complete(i) == /\ i \in running
               /\ running' = running \ {i} /\ done' = done \cup {i} /\ order' = Append(order, i)
               /\ results' = [results EXCEPT ![i] = 1000 + i]      \* a pure task: its result depends on i only
               /\ UNCHANGED submitted
Next == Submit \/ Start \/ \E i \in 1..T : Complete(i)
Spec == Init /\ [][Next]_vars
Finished == Cardinality(done) = T
\* whatever the schedule, the collected results are those of the tasks in submission order
Inv_CollectedInSubmissionOrder == Finished => results = [i \in 1..T |-> 1000 + i]
Inv_WindowRespected == Outstanding <= W /\ Cardinality(running) <= K
Emit == (Finished /\ EmitVectors) => PrintT(ToJson([order |-> order]))
=============================================================================
