----------------------------- MODULE TraceBenchmark -----------------------------
(* Validates recorded benchmark runs: each event is one run with its options, the injected crash point, the   *)
(* store observed BEFORE the run and everything observed after it; the event is accepted iff the observed     *)
(* snapshot is exactly RunEffect applied to the observed previous store.                                      *)
EXTENDS Benchmark, Json, IOUtils
Trace == ndJsonDeserialize(IOEnv.TRACE_FILE)
VARIABLE l
TInit == l = 1
ToSet(s) == {s[i] : i \in DOMAIN s}
StoreOf(b) ==
    [pred |-> [x \in { << <<t[1], t[2], t[3]>>, t[4] >> : t \in ToSet(b.pred) } |->
                  (CHOOSE t \in ToSet(b.pred) : << <<t[1], t[2], t[3]>>, t[4] >> = x)[5]],
     fitted |-> [k \in { <<t[1], t[2], t[3]>> : t \in ToSet(b.fitted) } |->
                  (CHOOSE t \in ToSet(b.fitted) : <<t[1], t[2], t[3]>> = k)[4]],
     master |-> [S |-> ToSet(b.S), D |-> ToSet(b.D)]]
Snap(r) == [pred |-> { <<x[1][1], x[1][2], x[1][3], x[2], r.st.pred[x]>> : x \in DOMAIN r.st.pred },
            fitted |-> { <<k[1], k[2], k[3], r.st.fitted[k]>> : k \in DOMAIN r.st.fitted },
            S |-> r.st.master.S, D |-> r.st.master.D,
            fits |-> r.fits, preds |-> { <<x[1][1], x[1][2], x[1][3], x[2]>> : x \in r.preds },
            calls |-> r.calls, crashed |-> r.dead]
ObsSnap(o) == [pred |-> ToSet(o.pred), fitted |-> ToSet(o.fitted), S |-> ToSet(o.S), D |-> ToSet(o.D),
               fits |-> ToSet(o.fits), preds |-> ToSet(o.preds), calls |-> o.calls, crashed |-> o.crashed]
Exp(e) == Snap(RunEffect(StoreOf(e.before), e.o, e.crash, e.i))
Clause(e) ==
    LET x == Exp(e) o == ObsSnap(e.obs) IN
    IF ~e.obs.honest THEN "RecordIsHonest"
    ELSE IF o.fits # x.fits \/ o.preds # x.preds \/ o.calls # x.calls THEN
         (IF ~e.o.owp /\ ~e.o.owf THEN "NoRecomputeAndExactlyMissingProduced" ELSE "OverwriteRecomputesAll")
    ELSE IF o.pred # x.pred \/ o.fitted # x.fitted THEN "CompletedUntouchedExactlyOneRecordPerKey"
    ELSE IF o.S # x.S \/ o.D # x.D THEN "FinalEqualsUninterrupted(registry)"
    ELSE IF ~e.obs.readable THEN "ReadBackEqualsStored" ELSE "CrashOutcome"
Ok(e) == ObsSnap(e.obs) = Exp(e) /\ e.obs.honest /\ (e.obs.crashed \/ e.obs.readable)
Verdict(e) == IF Ok(e) THEN TRUE ELSE PrintT(<<"REJECT", e.tid, Clause(e)>>)
TNext == \/ l <= Len(Trace) /\ Verdict(Trace[l]) /\ l' = l + 1
         \/ l = Len(Trace) + 1 /\ PrintT(<<"DONE", Len(Trace)>>) /\ l' = l + 1
TSpec == TInit /\ [][TNext]_l
=============================================================================
