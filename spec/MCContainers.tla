----------------------------- MODULE MCContainers -----------------------------
EXTENDS Containers, Json
CONSTANTS MaxPath, EmitVectors
VARIABLES stage, cfg
vars == <<stage, cfg>>
NameSets == { <<1>>, <<1, 2>>, <<2, 1>>, <<1, 2, 3>>, <<2, 3, 1>>, <<101>>, <<101, 102>> }
Init == stage = "start" /\ cfg = [from |-> "ns", names |-> <<1>>, path |-> << >>, n |-> 2, t |-> 3, ishuf |-> FALSE, trev |-> FALSE, tshift |-> FALSE]
PickStart == /\ stage = "start"
             /\ \E r \in {"ns", "na"}, nm \in NameSets, n \in 1..3, t \in 2..4, ish \in BOOLEAN, tr \in BOOLEAN, tsh \in BOOLEAN :
                    \* instance labels in non-ascending order / time labels in descending order: order of
                    \* appearance is what must be preserved
                    /\ (ish => n >= 2) /\ (tr => r = "ns")
                    \* tshift: every instance's series carries its own time labels (i .. i + t - 1)
                    /\ (tsh => (r = "ns" /\ ~tr /\ n >= 2))
                    /\ cfg' = [cfg EXCEPT !.from = r, !.names = nm, !.n = n, !.t = t, !.ishuf = ish, !.trev = tr, !.tshift = tsh]
             /\ stage' = "path"
Cur == IF Len(cfg.path) = 0 THEN cfg.from ELSE cfg.path[Len(cfg.path)]
Extend == /\ stage = "path" /\ Len(cfg.path) < MaxPath
          /\ \E to \in {"ns", "na", "np3", "np3n", "mi", "long", "t2"} :
                 /\ <<Cur, to>> \in Edges /\ (to = "t2" => Len(cfg.names) = 1)
                 \* the long table is keyed by identifiers (rows are records): order of appearance of
                 \* unsorted instance / time labels is only claimed for the other representations
                 /\ (to = "long" => (~cfg.ishuf /\ ~cfg.trev /\ ~cfg.tshift))
                 \* a multi-index frame goes into an array through ONE common time index: instances that carry
                 \* labels of their own are not claimed for that edge
                 /\ ((cfg.tshift /\ Cur = "mi") => to \notin {"np3", "np3n"})
                 /\ cfg' = [cfg EXCEPT !.path = Append(@, to)]
          /\ UNCHANGED stage
Finish == stage = "path" /\ Len(cfg.path) > 0 /\ stage' = "done" /\ UNCHANGED cfg
Next == PickStart \/ Extend \/ Finish
Spec == Init /\ [][Next]_vars
Done == stage = "done"
E == Expected(cfg)
ThroughLong == \E i \in DOMAIN cfg.path : cfg.path[i] = "long"
AllCarry == \A i \in DOMAIN cfg.path : cfg.path[i] \in Carries
\* round trips and any path not through the long table keep the variables in their original order
\* the time labels survive exactly when no array representation is on the way
Inv_TimeLabelsKeptWhenCarried ==
    (Done /\ (cfg.trev \/ cfg.tshift)) => (E.tl = "orig") = (\A i \in DOMAIN cfg.path : cfg.path[i] \notin LabelLess)
Inv_OrderPreserved == (Done /\ ~ThroughLong) => E.order = Identity(Len(cfg.names))
\* names survive exactly when every representation on the way carries names
Inv_NamesPreservedWhenCarried == (Done /\ AllCarry /\ ~ThroughLong) => E.names = cfg.names
\* path independence: the result depends on the end points only (order), for paths avoiding the long table
Inv_PathIndependence ==
    (Done /\ ~ThroughLong /\ <<cfg.from, E.rep>> \in Edges) =>
        E.order = Expected([cfg EXCEPT !.path = <<E.rep>>]).order
\* the long table orders variables by their identifier
Inv_LongSortsByIdentifier ==
    (Done /\ Len(cfg.path) = 2 /\ cfg.path = <<"long", "ns">>) =>
        \A j \in 1..(Len(cfg.names) - 1) : cfg.names[E.order[j]] < cfg.names[E.order[j + 1]]
Emit == (Done /\ EmitVectors) => PrintT(ToJson([cfg |-> cfg, exp |-> E]))
\* all 2x2 and 3x1 cell-type matrices for the nestedness predicates (emitted once, from the initial state)
Mats == [1..2 -> [1..2 -> BOOLEAN]] \cup [1..3 -> [1..1 -> BOOLEAN]]
EmitMats == (stage = "start" /\ EmitVectors) =>
               \A m \in Mats : PrintT(ToJson([mat |-> m, cols |-> ColumnsNested(m), frame |-> FrameNested(m)]))
Inv_FrameNestedIffSomeColumn == \A m \in Mats : FrameNested(m) = (\E j \in DOMAIN m[1] : ColumnsNested(m)[j])
=============================================================================
