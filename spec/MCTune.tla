------------------------------- MODULE MCTune -------------------------------
EXTENDS Tune, Json
CONSTANTS MaxCand, MaxLoss, EmitVectors
VARIABLES stage, cfg
vars == <<stage, cfg>>
Tables2 == [1..2 -> 1..MaxLoss] \cup {[f \in 1..2 |-> 0]}      \* two folds; the all-zero table: score undefined in every fold
Init == stage = "opts" /\ cfg = [tables |-> << >>, gib |-> FALSE, refit |-> TRUE, kind |-> "grid", nest |-> "plain", n |-> 8, strat |-> "refit"]
PickOpts == /\ stage = "opts"
            /\ \E g \in BOOLEAN, r \in BOOLEAN, k \in {"grid", "random"}, ne \in {"plain", "pipe", "mux"}, n \in {7, 9},
                  st \in {"refit", "update"} :
                   /\ (st = "update" => ne = "plain")
                   /\ cfg' = [cfg EXCEPT !.gib = g, !.refit = r, !.kind = k, !.nest = ne, !.n = n, !.strat = st]
            /\ stage' = "cands"
AddCand == /\ stage = "cands" /\ Len(cfg.tables) < MaxCand
           /\ \E t \in Tables2 : (\A i \in DOMAIN cfg.tables : cfg.tables[i] # t)    \* distinct parameter values
                                 /\ cfg' = [cfg EXCEPT !.tables = Append(@, t)]
           /\ UNCHANGED stage
\* at least one candidate has a defined score, at most one an undefined one
Finish == /\ stage = "cands" /\ Len(cfg.tables) >= 2
          /\ \E i \in DOMAIN cfg.tables : Defined(cfg, i)
          /\ Cardinality({i \in DOMAIN cfg.tables : ~Defined(cfg, i)}) <= 1
          /\ stage' = "done" /\ UNCHANGED cfg
Next == PickOpts \/ AddCand \/ Finish
Spec == Init /\ [][Next]_vars
Done == stage = "done"
\* design checks: a best candidate exists and nobody beats it; ties are all admissible
Inv_BestExists == Done => BestSet(cfg) # {}
Inv_BestIsExtreme ==
    Done => \A i \in BestSet(cfg) : \A j \in DOMAIN cfg.tables : Defined(cfg, j) =>
                IF cfg.gib THEN Score(cfg, i) >= Score(cfg, j) ELSE Score(cfg, i) <= Score(cfg, j)
Inv_UndefinedNeverBest == Done => \A i \in BestSet(cfg) : Defined(cfg, i)
\* the direction matters: the loss-optimal and the greater-is-better-optimal candidate coincide,
\* because greater-is-better scores are the negated losses
Inv_DirectionConsistent ==
    Done => BestSet(cfg) = BestSet([cfg EXCEPT !.gib = ~cfg.gib])
Emit == (Done /\ EmitVectors) => PrintT(ToJson([cfg |-> cfg, best |-> BestSet(cfg),
                                                rows |-> [i \in DOMAIN cfg.tables |-> Score(cfg, i)]]))
=============================================================================
