-------------------------------- MODULE Num --------------------------------
(***************************************************************************)
(* Exact arithmetic for judging numeric code with TLC (DESIGN.md 3.2).      *)
(* A number is a triple <<n, d, k>> meaning (n/d) * EPS^k with d > 0,       *)
(* gcd(n,d) = 1, where EPS is machine epsilon (2^-52): the clamps           *)
(* max(x, EPS) that are part of several metric definitions produce k # 0.   *)
(* Products and quotients are exact; a sum of terms with different k keeps  *)
(* the dominant one (smaller k), which is exact to 2^-52 relative.          *)
(***************************************************************************)
EXTENDS Integers, Sequences, FiniteSets

AbsI(x) == IF x < 0 THEN -x ELSE x
RECURSIVE GCD(_, _)
GCD(a, b) == IF b = 0 THEN a ELSE GCD(b, a % b)
Norm(n, d, k) ==
    IF n = 0 THEN <<0, 1, 0>>
    ELSE LET g == GCD(AbsI(n), AbsI(d))
             s == IF d < 0 THEN -1 ELSE 1
         IN <<(s * n) \div g, (s * d) \div g, k>>
Q(n) == <<n, 1, 0>>
Frac(n, d) == Norm(n, d, 0)
EPS == <<1, 1, 1>>
Zero == Q(0)
IsZero(x) == x[1] = 0
Sgn(x) == IF x[1] > 0 THEN 1 ELSE IF x[1] < 0 THEN -1 ELSE 0
Neg(x) == <<-x[1], x[2], x[3]>>
Abs(x) == <<AbsI(x[1]), x[2], x[3]>>
Mul(x, y) == Norm(x[1] * y[1], x[2] * y[2], x[3] + y[3])
Div(x, y) == Norm(x[1] * y[2], x[2] * y[1], x[3] - y[3])
Add(x, y) ==
    IF IsZero(x) THEN y ELSE IF IsZero(y) THEN x
    ELSE IF x[3] = y[3] THEN Norm(x[1] * y[2] + y[1] * x[2], x[2] * y[2], x[3])
    ELSE IF x[3] < y[3] THEN x ELSE y
Sub(x, y) == Add(x, Neg(y))
Lt(x, y) == Sgn(Sub(x, y)) < 0
Le(x, y) == Sgn(Sub(x, y)) <= 0
MaxN(x, y) == IF Lt(x, y) THEN y ELSE x
MinN(x, y) == IF Lt(x, y) THEN x ELSE y
Sq(x) == Mul(x, x)
RECURSIVE Pow(_, _)
Pow(x, p) == IF p = 0 THEN Q(1) ELSE Mul(x, Pow(x, p - 1))
RECURSIVE SumN(_)
SumN(s) == IF Len(s) = 0 THEN Zero ELSE Add(Head(s), SumN(Tail(s)))
RECURSIVE ProdN(_)
ProdN(s) == IF Len(s) = 0 THEN Q(1) ELSE Mul(Head(s), ProdN(Tail(s)))
RECURSIVE SumI(_)
SumI(s) == IF Len(s) = 0 THEN 0 ELSE Head(s) + SumI(Tail(s))
MeanN(s) == Div(SumN(s), Q(Len(s)))
WMeanN(s, w) == Div(SumN([i \in DOMAIN s |-> Mul(Q(w[i]), s[i])]), Q(SumI(w)))
\* k-th smallest element (1-based) of a sequence of numbers
Kth(s, k) ==
    CHOOSE v \in {s[i] : i \in DOMAIN s} :
        /\ Cardinality({i \in DOMAIN s : Lt(s[i], v)}) < k
        /\ Cardinality({i \in DOMAIN s : Le(s[i], v)}) >= k
MedianN(s) ==
    LET n == Len(s) IN
    IF n % 2 = 1 THEN Kth(s, (n + 1) \div 2)
    ELSE Div(Add(Kth(s, n \div 2), Kth(s, n \div 2 + 1)), Q(2))
\* every value of the sample that is a weighted median (weights w, positive integers)
WMedians(s, w) ==
    LET W == SumI(w)
        below(v) == SumI([i \in DOMAIN s |-> IF Lt(s[i], v) THEN w[i] ELSE 0])
        above(v) == SumI([i \in DOMAIN s |-> IF Lt(v, s[i]) THEN w[i] ELSE 0])
    IN { v \in {s[i] : i \in DOMAIN s} : 2 * below(v) <= W /\ 2 * above(v) <= W }
=============================================================================
