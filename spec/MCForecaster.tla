---------------------------- MODULE MCForecaster ----------------------------
(* Bounded state machine over Forecaster.tla.  `hist` records every call     *)
(* together with what the specification expects the implementation to show  *)
(* afterwards, so that each state of depth d is one complete behaviour that   *)
(* can be replayed into the real classes (spec -> code).                     *)
EXTENDS Forecaster, Json

CONSTANTS MaxT,        \* times are 0..MaxT-1
          MinFit,      \* shortest training series
          FhSet,       \* relative step sequences to use
          MaxDepth,    \* calls per behaviour
          MaxOverlap,  \* an update batch may start this far before cutoff+1
          MaxStep,     \* a new batch extends the known data by at most this much
          Modes,       \* subset of {"opt","req"}
          WithUpdPredict, \* include update_predict calls (C10) or not (C03)
          EmitVectors

FhSet3 == {<<1>>, <<1, 2, 3>>, <<2, 5>>}
FhSet2 == {<<1>>, <<1, 3>>}
VARIABLES fitted, obs, cutoff, sfh, epoch, mode, hist,
          mknown   \* the horizon is also known to component forecasters: composites hand it down only in
                   \* fit and predict, and refit (update_params) re-uses the stored horizon of each component
vars == <<fitted, obs, cutoff, sfh, epoch, mode, hist, mknown>>

Ver == 1 + Cardinality({i \in DOMAIN hist : hist[i].op \in {"fit", "update", "ups", "upd_predict"} /\ ~hist[i].exp.rej})
RelFh(s) == [steps |-> s, rel |-> TRUE]
AbsFh(s, c) == [steps |-> [i \in DOMAIN s |-> c + s[i]], rel |-> FALSE]
NoCv == [kind |-> "none", fh |-> <<1>>, wl |-> 1, sl |-> 1, sww |-> TRUE]

Snap(rej, f, c, times, cells, o, e, s) ==
    [rej |-> rej, fitted |-> f, cutoff |-> c, times |-> times, cells |-> cells,
     obs |-> Pairs(o), epoch |-> Pairs(e), sfh |-> s,
     twinok |-> (f /\ c = MaxTime(o)),
     cutver |-> (IF f /\ c \in Dom(o) THEN o[c] ELSE 0)]   \* version of the observation at the cutoff
Entry(op, lo, hi, upd, fh, cv, exp) ==
    [op |-> op, lo |-> lo, hi |-> hi, ver |-> Ver, upd |-> upd, fh |-> fh, cv |-> cv, exp |-> exp]
Log(e) == hist' = Append(hist, e)
Unch == UNCHANGED <<fitted, obs, cutoff, sfh, epoch, mknown>>
RejSnap == Snap(TRUE, fitted, cutoff, << >>, << >>, obs, epoch, sfh)

Init == /\ fitted = FALSE /\ obs = EmptyObs /\ cutoff = -1 /\ sfh = NoFh /\ epoch = EmptyObs
        /\ mode \in Modes /\ hist = << >> /\ mknown = FALSE

CanStep == Len(hist) < MaxDepth

(* fit(y[lo..hi], fh): a new series replaces everything remembered *)
Fit(lo, hi, fh) ==
    /\ CanStep
    \* re-fit of an already fitted object WITHOUT a horizon is not generated: plain forecasters keep the
    \* stored horizon (and raise if none is stored), composites and tuners re-clone their components and
    \* forget it; that behaviour is outside C03/C10 (DESIGN 7)
    /\ ~(fitted /\ fh = NoFh)
    /\ ~(fitted /\ mode = "req" /\ fh # sfh)          \* nor with a different horizon when fitting depends on it
    /\ IF mode = "req" /\ fh = NoFh
       THEN Unch /\ Log(Entry("fit", lo, hi, FALSE, fh, NoCv, RejSnap))
       ELSE LET o == Batch(lo, hi, Ver) IN
            /\ fitted' = TRUE /\ obs' = o /\ epoch' = o /\ cutoff' = hi
            /\ sfh' = (IF fh = NoFh THEN sfh ELSE fh)
            /\ mknown' = (fh # NoFh)
            /\ Log(Entry("fit", lo, hi, FALSE, fh, NoCv, Snap(FALSE, TRUE, hi, << >>, << >>, o, o, sfh')))
    /\ UNCHANGED mode

(* update(y[lo..hi], update_params=upd) *)
Update(lo, hi, upd) ==
    /\ CanStep /\ fitted
    /\ (upd => (sfh # NoFh /\ mknown))   \* refitting re-uses the stored horizon (missing-fh case: C20)
    /\ LET o == Merge(obs, Batch(lo, hi, Ver))
           e == IF upd THEN o ELSE epoch IN
       /\ obs' = o /\ epoch' = e /\ cutoff' = hi
       /\ Log(Entry("update", lo, hi, upd, NoFh, NoCv, Snap(FALSE, TRUE, hi, << >>, << >>, o, e, sfh)))
    /\ UNCHANGED <<fitted, sfh, mode, mknown>>

(* predict(fh) *)
Predict(fh) ==
    /\ CanStep /\ fitted
    /\ LET eff == IF fh = NoFh THEN sfh ELSE fh IN
       IF \/ eff = NoFh                                   \* no horizon known anywhere
          \/ (mode = "req" /\ fh # NoFh /\ fh # sfh)      \* differs from the one seen in fit
       THEN Unch /\ Log(Entry("predict", 0, 0, FALSE, fh, NoCv, RejSnap))
       ELSE /\ AllAfter(eff, cutoff)
            /\ sfh' = (IF mode = "opt" THEN eff ELSE sfh)
            /\ mknown' = TRUE
            /\ UNCHANGED <<fitted, obs, cutoff, epoch>>
            /\ Log(Entry("predict", 0, 0, FALSE, fh, NoCv,
                         Snap(FALSE, TRUE, cutoff, Times(eff, cutoff), << >>, obs, epoch, sfh')))
    /\ UNCHANGED mode

(* update_predict_single(y[lo..hi], fh, update_params=upd) == update ; predict *)
UpdatePredictSingle(lo, hi, upd, fh) ==
    /\ CanStep /\ fitted
    /\ (upd => (sfh # NoFh /\ mknown))
    /\ LET eff == IF fh = NoFh THEN sfh ELSE fh
           o == Merge(obs, Batch(lo, hi, Ver))
           e == IF upd THEN o ELSE epoch IN
       /\ eff # NoFh /\ (mode = "req" => (fh = NoFh \/ fh = sfh))
       /\ AllAfter(eff, hi)
       /\ obs' = o /\ epoch' = e /\ cutoff' = hi
       /\ sfh' = (IF mode = "opt" THEN eff ELSE sfh)
       /\ Log(Entry("ups", lo, hi, upd, fh, NoCv, Snap(FALSE, TRUE, hi, Times(eff, hi), << >>, o, e, sfh')))
       /\ mknown' = TRUE
    /\ UNCHANGED <<fitted, mode>>

(* update_predict(y[cutoff+1..hi], cv, update_params=upd): the detached loop *)
UpdatePredict(hi, cv, upd) ==
    /\ CanStep /\ fitted /\ sfh # NoFh /\ sfh.rel /\ cv.fh = sfh.steps /\ mknown
    /\ cutoff = MaxTime(obs)
    /\ LET lo == cutoff + 1
           out == Outcome(CvCfg(cv, hi - lo + 1)) IN
       IF out.rej
       THEN Unch /\ Log(Entry("upd_predict", lo, hi, upd, NoFh, cv, RejSnap))
       ELSE LET o == ObsAfter(obs, lo, out.splits, Len(out.splits), Ver)
                e == IF upd THEN o ELSE epoch
                cells == Cells(lo, out.splits, cv.fh) IN
            /\ obs' = o /\ epoch' = e
            /\ UNCHANGED <<fitted, cutoff, sfh, mknown>>    \* cutoff is restored
            /\ Log(Entry("upd_predict", lo, hi, upd, NoFh, cv,
                         Snap(FALSE, TRUE, cutoff, << >>, cells, o, e, sfh)))
    /\ UNCHANGED mode

FhArgs(c) == {NoFh} \cup {RelFh(s) : s \in FhSet} \cup {AbsFh(s, c) : s \in FhSet}
CvsAll == { [kind |-> k, fh |-> f, wl |-> w, sl |-> s, sww |-> b] :
            k \in {"sliding", "expanding"}, f \in FhSet, w \in 1..2, s \in 1..2, b \in BOOLEAN }
\* windows that tile the new stretch (no observation skipped)
Cvs == { c \in CvsAll : c.kind = "sliding" => c.sl <= c.wl }

HiRange == { h \in cutoff..(MaxT - 1) : h <= cutoff + MaxStep }
Next ==
    \/ \E hi \in (MinFit - 1)..(MaxT - 2), fh \in {NoFh} \cup {RelFh(s) : s \in FhSet} :
           (~fitted \/ Len(hist) >= 2) /\ (hi <= MinFit) /\ (fitted => (hi = MinFit /\ fh \in {NoFh, sfh})) /\ Fit(0, hi, fh)
    \/ \E lo \in (cutoff + 1 - MaxOverlap)..(cutoff + 1), hi \in HiRange, upd \in BOOLEAN :
           fitted /\ lo >= 0 /\ hi >= lo /\ hi >= MaxTime(obs) /\ Update(lo, hi, upd)
    \/ \E fh \in FhArgs(cutoff) : (mode = "req" => fh.rel) /\ Predict(fh)
    \/ \E lo \in {cutoff + 1 - MaxOverlap, cutoff + 1}, hi \in HiRange, upd \in BOOLEAN :
         \E fh \in {NoFh} \cup {AbsFh(s, hi) : s \in FhSet} :
           fitted /\ lo >= 0 /\ hi >= lo /\ hi >= MaxTime(obs) /\ (mode = "req" => fh.rel)
           /\ UpdatePredictSingle(lo, hi, upd, fh)
    \/ \E hi \in HiRange, cv \in Cvs, upd \in BOOLEAN : WithUpdPredict /\ hi > cutoff + 1 /\ UpdatePredict(hi, cv, upd)
Spec == Init /\ [][Next]_vars

-----------------------------------------------------------------------------
(* Design-level invariants: what C03 / C10 say about the abstract state.     *)
Okd(i) == ~hist[i].exp.rej
DataOps == {"fit", "update", "ups", "upd_predict"}
\* the version remembered at time t is that of the latest accepted batch covering t since the last fit
LastFit == IF \E i \in DOMAIN hist : hist[i].op = "fit" /\ Okd(i)
           THEN CHOOSE i \in DOMAIN hist : hist[i].op = "fit" /\ Okd(i)
                     /\ \A j \in DOMAIN hist : (hist[j].op = "fit" /\ Okd(j)) => j <= i
           ELSE 0
Covers(i, t) == hist[i].op \in DataOps /\ Okd(i) /\ i >= LastFit
                /\ \E k \in DOMAIN hist[i].exp.obs : hist[i].exp.obs[k] = <<t, hist[i].ver>>
Inv_LaterWins ==
    fitted => \A t \in Dom(obs) :
        \E i \in DOMAIN hist : Covers(i, t) /\ obs[t] = hist[i].ver
                               /\ \A j \in DOMAIN hist : Covers(j, t) => j <= i
Inv_ObsContiguous == fitted => \A t \in Dom(obs) : t = MaxTime(obs) \/ (t + 1) \in Dom(obs)
Inv_CutoffObserved == fitted => cutoff \in Dom(obs)
Inv_EpochWithinObs == fitted => Dom(epoch) \subseteq Dom(obs)
\* after fit / update / update_predict_single the cutoff is the last time point passed
Inv_CutoffIsLastGiven ==
    (Len(hist) > 0 /\ hist[Len(hist)].op \in {"fit", "update", "ups"} /\ Okd(Len(hist)))
        => cutoff = hist[Len(hist)].hi
\* update_predict leaves the cutoff where it was
Inv_CutoffRestored ==
    (Len(hist) > 1 /\ hist[Len(hist)].op = "upd_predict")
        => cutoff = hist[Len(hist) - 1].exp.cutoff
\* forecasts are labelled cutoff + step (relative) / the requested points (absolute), increasing
Inv_PredictIndex ==
    (Len(hist) > 0 /\ hist[Len(hist)].op \in {"predict", "ups"} /\ Okd(Len(hist))) =>
        LET t == hist[Len(hist)].exp.times IN
        /\ Len(t) > 0 /\ \A i \in 1..(Len(t) - 1) : t[i] < t[i + 1]
        /\ \A i \in DOMAIN t : t[i] > cutoff
\* parameter updating disabled: the estimation data stay those of the last (re)fit
Inv_NoParamUpdateKeepsEpoch ==
    (Len(hist) > 1 /\ hist[Len(hist)].op \in {"update", "ups", "upd_predict"} /\ Okd(Len(hist))
       /\ ~hist[Len(hist)].upd) => Pairs(epoch) = hist[Len(hist) - 1].exp.epoch
Inv_RefitUsesEverything ==
    (Len(hist) > 0 /\ hist[Len(hist)].op \in {"update", "ups", "upd_predict"} /\ Okd(Len(hist))
       /\ hist[Len(hist)].upd) => epoch = obs
Emit == (EmitVectors /\ Len(hist) = MaxDepth) => PrintT(ToJson([mode |-> mode, hist |-> hist]))
=============================================================================
