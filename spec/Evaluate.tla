------------------------------ MODULE Evaluate ------------------------------
(***************************************************************************)
(* evaluate(): temporal cross-validation of a forecaster (property C07;     *)
(* instantiated by Tune.tla for C08).                                       *)
(*                                                                         *)
(* Configuration: [split (a Splitters configuration with start_with_window *)
(* = TRUE), strategy \in {"refit","update"}, nx \in 0..1].                   *)
(* Tokens: Y(t) = 1000+t (target at time t), F(k,i) = 500000+1000k+i (i-th   *)
(* value of the k-th forecast), S(k) = 7000+k (value returned by the k-th    *)
(* metric call).  Events, in program order, one fold after the other:        *)
(*   [ev "fit"|"update", times, fh]   data handed to the forecaster          *)
(*   [ev "predict", fh, xtimes]       horizon (absolute) and exogenous rows  *)
(*   [ev "metric", first, second]     the two arguments of the metric         *)
(* and one result row [score, cutoff, len] per fold.                          *)
(***************************************************************************)
EXTENDS Splitters

YTok(t) == 1000 + t
FTok(k, i) == 500000 + 1000 * k + i
STok(k) == 7000 + k
NoTimes == << >>

FoldEvents(c, k, sp) ==
    LET test == sp.test
        first == IF k = 1 \/ c.strategy = "refit" THEN "fit" ELSE "update"
    IN << [ev |-> first, times |-> sp.train, fh |-> (IF first = "fit" THEN test ELSE NoTimes), xtimes |-> NoTimes,
           a |-> NoTimes, b |-> NoTimes, upd |-> (first = "update")],   \* update() with its default: parameters are updated
          [ev |-> "predict", times |-> NoTimes, fh |-> test,
           xtimes |-> (IF c.nx = 0 THEN NoTimes ELSE Run(LastOf(sp.train) + 1, LastOf(test))),
           a |-> NoTimes, b |-> NoTimes, upd |-> FALSE],
          [ev |-> "metric", times |-> NoTimes, fh |-> NoTimes, xtimes |-> NoTimes,
           a |-> [i \in DOMAIN test |-> YTok(test[i])],          \* truth first
           b |-> [i \in DOMAIN test |-> FTok(k, i)], upd |-> FALSE] >>   \* forecast second
RECURSIVE FlatEvents(_, _, _)
FlatEvents(c, splits, k) ==
    IF k > Len(splits) THEN << >> ELSE FoldEvents(c, k, splits[k]) \o FlatEvents(c, splits, k + 1)

ExpectedEval(c) ==
    LET o == Outcome(c.split) IN
    IF o.rej THEN [rej |-> TRUE]
    ELSE [rej |-> FALSE,
          events |-> FlatEvents(c, o.splits, 1),
          rows |-> [k \in DOMAIN o.splits |->
                      [score |-> STok(k), cutoff |-> o.cutoffs[k], len |-> Len(o.splits[k].train)]]]

-----------------------------------------------------------------------------
(* Clauses of C07 over any claimed observation.                              *)
OneRowPerSplit(c, o) == Len(o.rows) = Outcome(c.split).nsplits
\* during each fold nothing at or after the fold's first test point is given before its prediction
NoLookAhead(c, o) ==
    \A p \in DOMAIN o.events :
        o.events[p].ev = "predict" =>
            \A q \in 1..(p - 1) : \A i \in DOMAIN o.events[q].times :
                o.events[q].times[i] < o.events[p].fh[1]
MetricTruthFirst(c, o) ==
    \A p \in DOMAIN o.events :
        o.events[p].ev = "metric" =>
            /\ \A i \in DOMAIN o.events[p].a : o.events[p].a[i] < 500000
            /\ \A i \in DOMAIN o.events[p].b : o.events[p].b[i] >= 500000
EClauseNames == << "OneRowPerSplit", "NoLookAhead", "MetricTruthFirst" >>
EClauseHolds(i, c, o) == CASE i = 1 -> OneRowPerSplit(c, o) [] i = 2 -> NoLookAhead(c, o) [] i = 3 -> MetricTruthFirst(c, o)
=============================================================================
