------------------------------ MODULE PanelEstim ------------------------------
(***************************************************************************)
(* Fitted panel estimators (properties C16 and C17).                        *)
(*                                                                         *)
(* C16: a fitted transformer / classifier / regressor is a ROW MAP g: the   *)
(* output for a panel is [g(x_1), ..., g(x_n)].  An input transformation    *)
(* is the sequence src of base-instance numbers it presents (a permutation, *)
(* an order-preserving sub-selection, a single instance); with base the      *)
(* fingerprints of the rows g(x_i) of the untransformed run, the output of   *)
(* the transformed run must be [base[src[1]], ..., base[src[m]]], whichever   *)
(* container (nested frame / 3-d array) was used at fit or at apply time.     *)
(*                                                                         *)
(* C17: probabilities are rows of exact numbers <<n, d>>; classes are the    *)
(* ranks 1..K of the sorted training labels.                                 *)
(***************************************************************************)
EXTENDS Num

\* ---- C16 -----------------------------------------------------------------
RowwiseOk(c, o) ==
    /\ Len(o.rows) = Len(c.src)                                  \* one output row per input instance, in order
    /\ \A k \in DOMAIN c.src : o.rows[k] = c.base[c.src[k]]      \* each instance mapped on its own
RowClause(c, o) ==
    IF Len(o.rows) # Len(c.src) THEN "RowCountAndOrder"
    ELSE IF Len(c.src) = 1 THEN "SingleEqualsBatchRow"
    ELSE IF c.fitc # "nested" \/ c.applyc # "nested" THEN "ContainerIrrelevant"
    ELSE "Equivariance"

\* ---- C17 -----------------------------------------------------------------
N3(p) == <<p[1], p[2], 0>>
RowSum(r) == SumN([k \in DOMAIN r |-> N3(r[k])])
InUnit(x) == Sgn(N3(x)) >= 0 /\ Le(N3(x), Q(1))
MaxOfRow(r) == CHOOSE x \in {N3(r[k]) : k \in DOMAIN r} : \A k \in DOMAIN r : Le(N3(r[k]), x)
ProbaWellFormed(c, o) ==
    /\ Len(o.proba) = c.n                                           \* one row per instance
    /\ \A i \in DOMAIN o.proba :
          /\ Len(o.proba[i]) = c.K                                   \* one column per class seen in training
          /\ \A k \in DOMAIN o.proba[i] : InUnit(o.proba[i][k])
          /\ RowSum(o.proba[i]) = Q(1)
ClassesSorted(c, o) == o.classes = [k \in 1..c.K |-> k]             \* classes_ = sorted distinct training labels
PredictIsArgMax(c, o) ==
    /\ Len(o.pred) = c.n
    /\ \A i \in DOMAIN o.pred :
          /\ o.pred[i] \in 1..c.K                                    \* a label from the training label set ...
          /\ N3(o.proba[i][o.pred[i]]) = MaxOfRow(o.proba[i])        \* ... attaining the maximal probability
ScoreIsFractionCorrect(c, o) ==
    LET hits == Cardinality({i \in DOMAIN o.pred : o.pred[i] = c.truth[i]}) IN
    N3(o.score) = Frac(hits, c.n)
\* aggregation rules: the ensemble's probabilities are the plain average of its members' probabilities
MemberAverage(c, o) ==
    Len(o.members) > 0 =>
        \A i \in DOMAIN o.proba : \A k \in DOMAIN o.proba[i] :
            N3(o.proba[i][k]) = MeanN([m \in DOMAIN o.members |-> N3(o.members[m][i][k])])
ProbaClauseNames == << "ProbaWellFormed", "ClassesSorted", "PredictIsArgMaxLabel", "ScoreIsFractionCorrect",
                       "LabelTypePreserved", "EnsembleIsMemberAverage" >>
ProbaClauseHolds(j, c, o) ==
    CASE j = 1 -> ProbaWellFormed(c, o) [] j = 2 -> ClassesSorted(c, o) [] j = 3 -> PredictIsArgMax(c, o)
      [] j = 4 -> ScoreIsFractionCorrect(c, o) [] j = 5 -> o.label_type_ok [] j = 6 -> MemberAverage(c, o)
=============================================================================
