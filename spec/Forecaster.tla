----------------------------- MODULE Forecaster -----------------------------
(***************************************************************************)
(* Life cycle of an sktime 0.6.0 forecaster (properties C03 and C10; the    *)
(* cutoff / horizon bookkeeping is reused by Evaluate, Tune, Compose).      *)
(*                                                                         *)
(* Abstract state                                                          *)
(*   fitted  has fit succeeded                                             *)
(*   obs     remembered observations: a function time -> version; a batch  *)
(*           of data is a contiguous stretch lo..hi tagged with a version  *)
(*           (the number of data-carrying calls so far), so that "later    *)
(*           values win on overlap" is visible                             *)
(*   cutoff  time point forecasts are made from                            *)
(*   sfh     the stored forecasting horizon ([steps, rel]) or NoFh         *)
(*   epoch   the observations the parameters were last estimated on        *)
(*   mode    "opt": horizon may be given in fit or predict;                *)
(*           "req": fitting depends on the horizon (reducers, stacking)    *)
(* One action per public call.  update_predict is one composite action     *)
(* whose effect is defined as the fold over its windows (DetachedLoop).    *)
(* Numerical forecast values are outside this module: the binding compares *)
(* them with a twin forecaster built from (epoch, obs, cutoff), see         *)
(* ExpTwin below; this module decides which twin that is.                  *)
(***************************************************************************)
EXTENDS Splitters, SequencesExt

NoFh == [steps |-> << >>, rel |-> TRUE]
EmptyObs == [t \in {} |-> 0]

Dom(f) == DOMAIN f
Merge(old, new) == [t \in Dom(old) \cup Dom(new) |-> IF t \in Dom(new) THEN new[t] ELSE old[t]]
Batch(lo, hi, v) == [t \in lo..hi |-> v]
MaxTime(f) == CHOOSE t \in Dom(f) : \A u \in Dom(f) : u <= t
Pairs(f) == SetToSortSeq({<<t, f[t]>> : t \in Dom(f)}, LAMBDA a, b : a[1] < b[1])

Times(fh, c) == IF fh.rel THEN [i \in DOMAIN fh.steps |-> c + fh.steps[i]] ELSE fh.steps
AllAfter(fh, c) == \A i \in DOMAIN fh.steps : Times(fh, c)[i] > c

(* ---- update_predict: windows of the splitter over the new stretch ------ *)
CvCfg(cv, n) == [kind |-> cv.kind, n |-> n, fh |-> cv.fh, wl |-> cv.wl, sl |-> cv.sl, iw |-> 0,
                 sww |-> cv.sww, cuts |-> <<0>>, ts |-> <<"none", 0>>, tr |-> <<"none", 0>>]
\* cutoff after processing window w of the stretch starting at lo (empty window: lo - 1)
WinCutoff(lo, w) == IF Len(w) = 0 THEN lo - 1 ELSE lo + LastOf(w)
WinBatch(lo, w, v) == IF Len(w) = 0 THEN EmptyObs ELSE Batch(lo + w[1], lo + LastOf(w), v)
\* observations after windows 1..k have been merged
RECURSIVE ObsAfter(_, _, _, _, _)
ObsAfter(o, lo, splits, k, v) ==
    IF k = 0 THEN o ELSE Merge(ObsAfter(o, lo, splits, k - 1, v), WinBatch(lo, splits[k].train, v))
Cells(lo, splits, fhsteps) ==
    [k \in DOMAIN splits |->
        [cut |-> WinCutoff(lo, splits[k].train),
         blo |-> (IF Len(splits[k].train) = 0 THEN lo ELSE lo + splits[k].train[1]),
         bhi |-> (IF Len(splits[k].train) = 0 THEN lo - 1 ELSE lo + LastOf(splits[k].train)),
         times |-> [i \in DOMAIN fhsteps |-> WinCutoff(lo, splits[k].train) + fhsteps[i]]]]

=============================================================================
