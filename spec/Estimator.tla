------------------------------- MODULE Estimator -------------------------------
(***************************************************************************)
(* The scikit-learn estimator protocol (property C04).                      *)
(*                                                                         *)
(* Abstract state of one estimator object:                                  *)
(*   params  function: tracked parameter name -> "orig" | "alt" (the value   *)
(*           passed at construction, or a second valid value)               *)
(*   fitted  is_fitted                                                      *)
(* Tracked names: up to two plain parameters "p1","p2", for composites one   *)
(* nested component parameter "c__p", one parameter two or more levels down  *)
(* "c__c__p", and one whole component "c".                                   *)
(* A sibling is a second estimator built from the very same argument objects *)
(* (same component list, same component instances).  Plain parameters and    *)
(* the component list are per object; the component objects themselves are   *)
(* shared, so a nested write through one estimator is visible through the    *)
(* other -- and nothing else is (SibParams).                                 *)
(* Operations are public calls; each returns an observation                 *)
(*   [rej (kind of rejection: "" | "unknown" | "notfitted" | "other"),       *)
(*    params (what get_params shows for the tracked names), fitted, self]    *)
(***************************************************************************)
EXTENDS Integers, Sequences, FiniteSets, TLC

CONSTANT Names                      \* tracked parameter names of this estimator
VARIABLES params, fitted
evars == <<params, fitted>>

Fresh == [n \in Names |-> "orig"]
Nested == {"c__p", "c__c__p"}
\* what get_params of the sibling shows while this estimator's parameters are p
SibParams(p) == [n \in Names |-> IF n \in Nested THEN p[n] ELSE "orig"]
EInit == params = Fresh /\ fitted = FALSE
Obs(rej, p, f, self) == [rej |-> rej, params |-> p, fitted |-> f, self |-> self]

\* get_params returns exactly what was passed / set
GetParams == UNCHANGED evars
GetObs == Obs("", params, fitted, TRUE)
\* set_params(**get_params()) is the identity; returns the estimator itself
SetSame == UNCHANGED evars
\* set_params(name=value): plain, nested component__param and whole-component names alike
SetAlt(n) == n \in Names /\ params' = [params EXCEPT ![n] = "alt"] /\ UNCHANGED fitted
SetOrig(n) == n \in Names /\ params' = [params EXCEPT ![n] = "orig"] /\ UNCHANGED fitted
\* unknown parameter names are rejected (ValueError) and nothing changes
SetUnknown == UNCHANGED evars
SetUnknownObs == Obs("unknown", params, fitted, FALSE)
\* clone: a new object with equal parameters, unfitted
CloneObs == Obs("", params, FALSE, FALSE)
\* fit returns the estimator itself, sets is_fitted, leaves every constructor parameter unchanged
Fit == fitted' = TRUE /\ UNCHANGED params
FitObs == Obs("", params, TRUE, TRUE)
\* apply-type methods before fit raise NotFittedError -- and nothing else
ApplyUnfittedObs == Obs("notfitted", params, FALSE, FALSE)
=============================================================================
