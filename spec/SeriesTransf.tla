---------------------------- MODULE SeriesTransf ----------------------------
(***************************************************************************)
(* Series transformers: invertible, index-preserving, aligned in time (C13).*)
(*                                                                         *)
(* A scenario is [kind, n, sp, lo, len, ups, origin]: the transformer is     *)
(* fitted on times 0..n-1 (shifted by origin), then updated with consecutive  *)
(* batches of the lengths in ups, then applied to the stretch lo..lo+len-1.   *)
(* Observation (decoded by the harness from public fitted attributes):       *)
(*   index   time points of transform's output (origin removed)              *)
(*   phases  for deseasonalizers: which entry of seasonal_ was removed at     *)
(*           each time point (decoded from input, output and seasonal_)       *)
(*   inv_phases the same for inverse_transform applied to the output           *)
(*   rt      inverse_transform(transform(z)) = z position by position         *)
(*   rt_index  its index equals the input's                                    *)
(*   fteq    fit_transform(train) = fit(train).transform(train)                *)
(*   shift   the run with every index shifted by a constant gives the same     *)
(*           values on the shifted index                                        *)
(*   noupd   update calls that do not update parameters (later, earlier or      *)
(*           gapped stretches alike) leave the mapping as fitted: the output    *)
(*           equals that of the transformer fitted on the training series only  *)
(***************************************************************************)
EXTENDS Integers, Sequences, FiniteSets, TLC

Stretch(c) == [i \in 1..c.len |-> c.lo + i - 1]
\* the seasonal component at time t depends only on t's position modulo the period relative to the
\* start of the TRAINING series (time 0), wherever the stretch starts and whatever updates happened
Phase(c, t) == (t - 0) % c.sp
IsDeseason(c) == c.kind \in {"deseason_add", "deseason_mul", "cond_deseason"}
ExpectedST(c) ==
    [index |-> (IF c.same_index THEN Stretch(c) ELSE << >>),
     phases |-> (IF IsDeseason(c) THEN [i \in 1..c.len |-> Phase(c, c.lo + i - 1)] ELSE << >>),
     inv_phases |-> (IF IsDeseason(c) THEN [i \in 1..c.len |-> Phase(c, c.lo + i - 1)] ELSE << >>),
     rt |-> (IF c.inverse THEN [i \in 1..c.len |-> TRUE] ELSE << >>),
     rt_index |-> TRUE, fteq |-> TRUE, shift |-> TRUE, noupd |-> TRUE]
STClause(c, o) ==
    LET e == ExpectedST(c) IN
    IF o.index # e.index THEN "SameIndex"
    ELSE IF o.phases # e.phases \/ o.inv_phases # e.inv_phases THEN "PhaseDependsOnlyOnTimeModPeriod"
    ELSE IF o.rt # e.rt \/ ~o.rt_index THEN "InverseOfTransformIsIdentity"
    ELSE IF ~o.fteq THEN "FitTransformEqualsFitThenTransform"
    ELSE IF ~o.noupd THEN "UpdateWithoutRefitKeepsTheMapping"
    ELSE "ShiftEquivariance"
=============================================================================
