----------------------------- MODULE MCCompose -----------------------------
EXTENDS Compose, TLC, Json
CONSTANTS MaxUps, EmitVectors
VARIABLES stage, cfg
vars == <<stage, cfg>>
Leaf(j) == [kind |-> "leaf", id |-> j, agg |-> "", ts |-> << >>, sel |-> 0, kids |-> << >>]
EnsT(a, ks) == [kind |-> "ens", id |-> 0, agg |-> a, ts |-> << >>, sel |-> 0, kids |-> ks]
PipeT(ts, k) == [kind |-> "pipe", id |-> 0, agg |-> "", ts |-> ts, sel |-> 0, kids |-> <<k>>]
MuxT(s, ks) == [kind |-> "mux", id |-> 0, agg |-> "", ts |-> << >>, sel |-> s, kids |-> ks]
StackT(ks) == [kind |-> "stack", id |-> 0, agg |-> "", ts |-> << >>, sel |-> 0, kids |-> ks]
OnlineT(ks) == [kind |-> "online", id |-> 0, agg |-> "", ts |-> << >>, sel |-> 0, kids |-> ks]
Trees ==
    { EnsT(a, <<Leaf(1), Leaf(2)>>) : a \in {"mean", "median", "min", "max"} }
    \cup { EnsT(a, <<Leaf(1), Leaf(2), Leaf(3)>>) : a \in {"mean", "median", "min", "max"} }
    \cup { PipeT(t, Leaf(1)) : t \in {<<1>>, <<1, 2>>, <<2, 1>>, <<7>>, <<1, 7>>, <<7, 2>>, <<4>>, <<4, 1>>, <<2, 5>>} }
    \cup { MuxT(s, <<Leaf(1), Leaf(2), Leaf(3)>>) : s \in 1..3 }
    \cup { StackT(<<Leaf(1), Leaf(2)>>), StackT(<<Leaf(1), Leaf(2), Leaf(3)>>) }
    \cup { EnsT(a, <<Leaf(1), PipeT(<<1>>, Leaf(2))>>) : a \in {"mean", "max"} }          \* depth 2
    \cup { PipeT(<<1>>, EnsT(a, <<Leaf(1), Leaf(2)>>)) : a \in {"mean", "median"} }
    \cup { MuxT(2, <<Leaf(1), PipeT(<<2>>, Leaf(2))>>), PipeT(<<1>>, PipeT(<<2>>, Leaf(1))),
           StackT(<<Leaf(1), PipeT(<<1>>, Leaf(2))>>) }
    \cup { OnlineT(<<Leaf(1), Leaf(2)>>), OnlineT(<<Leaf(1), Leaf(2), Leaf(3)>>), OnlineT(<<Leaf(1), PipeT(<<1>>, Leaf(2))>>) }
Init == stage = "tree" /\ cfg = [tree |-> Leaf(1), n |-> 6, fh |-> <<1>>, ups |-> << >>, resel |-> 0]
PickTree == /\ stage = "tree"
            /\ \E t \in Trees, n \in {6, 7}, f \in {<<1, 2>>, <<1, 3>>, <<2>>}, rs \in 0..3 :
                   /\ (rs > 0 => (t.kind = "mux" /\ rs <= Len(t.kids) /\ rs # t.sel))
                   /\ cfg' = [cfg EXCEPT !.tree = t, !.n = n, !.fh = f, !.resel = rs]
            /\ stage' = "ups"
AddUp == /\ stage = "ups" /\ Len(cfg.ups) < MaxUps
         /\ \E len \in 1..2, u \in BOOLEAN :
               LET lo == Cutoff(cfg) + 1 IN cfg' = [cfg EXCEPT !.ups = Append(@, [lo |-> lo, hi |-> lo + len - 1, upd |-> u])]
         /\ UNCHANGED stage
Finish == stage = "ups" /\ stage' = "done" /\ UNCHANGED cfg
Next == PickTree \/ AddUp \/ Finish
Spec == Init /\ [][Next]_vars
Done == stage = "done"
Exp == ExpectedCompose(cfg)
Inv_FinalOnlySeesFullChain == Done => FinalOnlySeesFullChain(cfg, Exp)
Inv_MuxOnlySelected        == Done => MuxOnlySelected(cfg, Exp)
Inv_StackHeldOut           == Done => StackHeldOut(cfg, Exp)
Inv_OnlineScoresUnseen     == Done => OnlineScoresUnseen(cfg, Exp)
\* inverse transforms are applied in reverse order of the transforms of the same pipeline
Inv_InverseInReverseOrder ==
    (Done /\ cfg.tree.kind = "pipe" /\ cfg.tree.kids[1].kind = "leaf") =>
        LET inv == SelectSeq(Exp.events, LAMBDA e : e.ev = "tinverse")
            want == SelectSeq(Reverse(cfg.tree.ts), LAMBDA t : ~Skip(t)) IN
        [i \in DOMAIN inv |-> inv[i].who] = want
Emit == (Done /\ EmitVectors) => PrintT(ToJson([cfg |-> cfg, exp |-> Exp]))
=============================================================================
