--------------------------- MODULE TraceSplitters ---------------------------
(* Trace validation for Splitters.tla.  Each line of the ndjson file is one  *)
(* observed call  [tid, cfg, obs]  where obs has the shape of an outcome.    *)
(* A line is accepted iff obs is exactly the specified outcome AND every     *)
(* clause of the property holds on obs itself.                               *)
EXTENDS Splitters, Json, IOUtils

Trace == ndJsonDeserialize(IOEnv.TRACE_FILE)
VARIABLE l
TInit == l = 1

FailingClause(c, o) ==
    LET bad == { i \in DOMAIN ClauseNames : ~ClauseHolds(i, c, o) } IN
    IF bad = {} THEN "OutcomeDiffers" ELSE ClauseNames[CHOOSE i \in bad : \A j \in bad : i <= j]

Verdict(e) ==
    LET exp == Outcome(e.cfg) IN
    IF e.obs = exp /\ AllClauses(e.cfg, e.obs) THEN TRUE
    ELSE PrintT(<<"REJECT", e.tid,
                  IF e.obs.rej # exp.rej THEN (IF exp.rej THEN "ShouldReject" ELSE "ShouldAccept")
                  ELSE IF Len(e.obs.cutoffs) # Len(e.obs.splits) \/ e.obs.nsplits # Len(e.obs.splits)
                       THEN "ReportedEqualsYielded"
                  ELSE FailingClause(e.cfg, e.obs)>>)

TNext == \/ /\ l <= Len(Trace)
            /\ Verdict(Trace[l])
            /\ l' = l + 1
         \/ /\ l = Len(Trace) + 1
            /\ PrintT(<<"DONE", Len(Trace)>>)
            /\ l' = l + 1
TSpec == TInit /\ [][TNext]_l
=============================================================================
