----------------------------- MODULE MCEvaluate -----------------------------
EXTENDS Evaluate, Json
CONSTANTS MaxN, MaxFh, MaxFhLen, MaxW, MaxS, MaxIW, EmitVectors
VARIABLES stage, cfg
vars == <<stage, cfg>>
FhSets == { SetToSortSeq(S, <) : S \in { T \in SUBSET (1..MaxFh) : T # {} /\ Cardinality(T) <= MaxFhLen } }
BlankS == [kind |-> "", n |-> 0, fh |-> <<1>>, wl |-> 0, sl |-> 1, iw |-> 0, sww |-> TRUE,
           cuts |-> <<0>>, ts |-> <<"none", 0>>, tr |-> <<"none", 0>>]
Init == stage = "kind" /\ cfg = [split |-> BlankS, strategy |-> "refit", nx |-> 0, prefit |-> FALSE]
PickKind == /\ stage = "kind"
            \* prefit: the forecaster object handed to evaluate has been fitted before (on the whole series).
            \* ExpectedEval does not look at it: the first fold always fits, whatever the object went through
            /\ \E k \in {"sliding", "expanding", "single"}, s \in {"refit", "update"}, x \in 0..1, p \in BOOLEAN :
                   /\ (p => s = "update")
                   /\ cfg' = [cfg EXCEPT !.split.kind = k, !.strategy = s, !.nx = x, !.prefit = p]
            /\ stage' = "n"
PickN == /\ stage = "n" /\ \E n \in 2..MaxN, f \in FhSets : cfg' = [cfg EXCEPT !.split.n = n, !.split.fh = f]
         /\ stage' = "win"
PickWin == /\ stage = "win"
           /\ CASE cfg.split.kind = "sliding" ->
                     \E w \in 1..MaxW, s \in 1..MaxS, i \in {0} \cup 2..MaxIW :
                         cfg' = [cfg EXCEPT !.split.wl = w, !.split.sl = s, !.split.iw = i]
                [] cfg.split.kind = "expanding" ->
                     \E w \in 1..MaxW, s \in 1..MaxS : cfg' = [cfg EXCEPT !.split.wl = w, !.split.sl = s]
                [] cfg.split.kind = "single" ->
                     \E w \in 0..MaxW : LastOf(cfg.split.fh) < cfg.split.n /\ cfg' = [cfg EXCEPT !.split.wl = w]
           /\ stage' = "done"
Next == PickKind \/ PickN \/ PickWin
Spec == Init /\ [][Next]_vars
Done == stage = "done"
Exp == ExpectedEval(cfg)
Inv_OneRowPerSplit  == (Done /\ ~Exp.rej) => OneRowPerSplit(cfg, Exp)
Inv_NoLookAhead     == (Done /\ ~Exp.rej) => NoLookAhead(cfg, Exp)
Inv_MetricTruthFirst == (Done /\ ~Exp.rej) => MetricTruthFirst(cfg, Exp)
\* the row describes exactly the fold's training window
Inv_RowCutoffAndLen ==
    (Done /\ ~Exp.rej) => \A k \in DOMAIN Exp.rows :
        LET tr == Outcome(cfg.split).splits[k].train IN
        Exp.rows[k].len = Len(tr) /\ (Len(tr) > 0 => Exp.rows[k].cutoff = LastOf(tr))
\* refit: every fold fits; update: the first fits, the others update
Inv_FitOrUpdate ==
    (Done /\ ~Exp.rej) => \A p \in DOMAIN Exp.events :
        (Exp.events[p].ev = "update") => (cfg.strategy = "update" /\ p > 3)
Emit == (Done /\ EmitVectors) => PrintT(ToJson([cfg |-> cfg, exp |-> Exp]))
=============================================================================
