------------------------------ MODULE TraceProba ------------------------------
EXTENDS PanelEstim, TLC, Json, IOUtils
Trace == ndJsonDeserialize(IOEnv.TRACE_FILE)
VARIABLE l
TInit == l = 1
Bad(e) == { j \in DOMAIN ProbaClauseNames : ~ProbaClauseHolds(j, e.cfg, e.obs) }
Verdict(e) == IF Bad(e) = {} THEN TRUE
              ELSE PrintT(<<"REJECT", e.tid, ProbaClauseNames[CHOOSE j \in Bad(e) : \A k \in Bad(e) : j <= k]>>)
TNext == \/ l <= Len(Trace) /\ Verdict(Trace[l]) /\ l' = l + 1
         \/ l = Len(Trace) + 1 /\ PrintT(<<"DONE", Len(Trace)>>) /\ l' = l + 1
TSpec == TInit /\ [][TNext]_l
=============================================================================
