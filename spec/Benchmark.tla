------------------------------- MODULE Benchmark -------------------------------
(***************************************************************************)
(* Benchmark orchestration over an on-disk result store, with failures and  *)
(* re-runs (property C19).                                                  *)
(*                                                                         *)
(* Keys are <<dataset, strategy, fold>>; the orchestrator iterates datasets  *)
(* (outer), strategies, folds.  The store holds                             *)
(*   pred    : <<key, part>> |-> number of the run that wrote the record      *)
(*   fitted  : key |-> number of the run that saved the fitted strategy       *)
(*   master  : [S, D] the persisted registry (strategy / dataset names)       *)
(* A run is described by its options                                         *)
(*   [owp, pot, sf, owf]  overwrite_predictions, predict_on_train,            *)
(*                        save_fitted_strategies, overwrite_fitted_strategies *)
(*   ns                   the strategies 1..ns take part in this run (a later *)
(*                        run over the same store may bring more strategies)  *)
(* and by crash, the number of the fit / predict call that raises (0: none).  *)
(* RunEffect folds the documented per-key procedure over all keys; a crash     *)
(* aborts the run: what was saved stays, the registry is not persisted.        *)
(***************************************************************************)
EXTENDS Integers, Sequences, FiniteSets, TLC

CONSTANTS ND, NS, NF                      \* numbers of datasets, strategies, folds
Keys == [d \in 1..(ND * NS * NF) |->
           << ((d - 1) \div (NS * NF)) + 1, (((d - 1) \div NF) % NS) + 1, ((d - 1) % NF) + 1 >>]   \* iteration order
AllKeys == {Keys[i] : i \in DOMAIN Keys}
EmptyStore == [pred |-> [x \in {} |-> 0], fitted |-> [x \in {} |-> 0], master |-> [S |-> {}, D |-> {}]]
Has(f, x) == x \in DOMAIN f
Put(f, x, v) == [y \in DOMAIN f \cup {x} |-> IF y = x THEN v ELSE f[y]]

\* state threaded through one run
\*   st: store; mem: registry of this run's results object; calls: fit/predict calls made so far;
\*   fits, preds: keys (with part) computed in this run; dead: the run has crashed
R0(st) == [st |-> st, mem |-> [S |-> {}, D |-> {}], calls |-> 0, fits |-> {}, preds |-> {}, dead |-> FALSE]
Reg(r, key) == [r EXCEPT !.mem = [S |-> r.mem.S \cup {key[2]}, D |-> r.mem.D \cup {key[1]}]]
\* one fit / predict call: counts, and kills the run if it is the crash-th one
Call(r, crash) == IF r.calls + 1 = crash THEN [r EXCEPT !.calls = r.calls + 1, !.dead = TRUE]
                  ELSE [r EXCEPT !.calls = r.calls + 1]

KeyStep(r0, key, o, crash, run) ==
    IF r0.dead \/ key[2] > o.ns THEN r0 ELSE
    LET testE == Has(r0.st.pred, <<key, "test">>)
        trainE == Has(r0.st.pred, <<key, "train">>)
        fitE == Has(r0.st.fitted, key)
        skip == ~o.owp /\ testE /\ (trainE \/ ~o.pot) /\ ~o.owf /\ (fitE \/ ~o.sf)
    IN IF skip THEN Reg(r0, key)                                  \* complete: nothing recomputed, still registered
       ELSE
       LET r1 == Call(r0, crash)                                   \* fit a clone on the fold's training instances
           r2 == IF r1.dead THEN r1
                 ELSE LET a == [r1 EXCEPT !.fits = @ \cup {key}] IN
                      IF o.sf /\ (o.owf \/ ~fitE)
                      THEN Reg([a EXCEPT !.st.fitted = Put(@, key, run)], key) ELSE a
           r3 == IF r2.dead \/ ~(o.pot /\ (o.owp \/ ~trainE)) THEN r2
                 ELSE LET b == Call(r2, crash) IN
                      IF b.dead THEN b
                      ELSE Reg([b EXCEPT !.st.pred = Put(@, <<key, "train">>, run), !.preds = @ \cup {<<key, "train">>}], key)
           r4 == IF r3.dead \/ ~(o.owp \/ ~testE) THEN r3
                 ELSE LET c == Call(r3, crash) IN
                      IF c.dead THEN c
                      ELSE Reg([c EXCEPT !.st.pred = Put(@, <<key, "test">>, run), !.preds = @ \cup {<<key, "test">>}], key)
       IN r4
RECURSIVE Fold(_, _, _, _, _)
Fold(r, i, o, crash, run) == IF i > Len(Keys) THEN r ELSE Fold(KeyStep(r, Keys[i], o, crash, run), i + 1, o, crash, run)
RunEffect(st, o, crash, run) ==
    LET r == Fold(R0(st), 1, o, crash, run) IN
    IF r.dead THEN r                                               \* registry not persisted
    ELSE [r EXCEPT !.st.master = [S |-> r.st.master.S \cup r.mem.S, D |-> r.st.master.D \cup r.mem.D]]

\* what load_predictions of a fresh results object yields for one fold and part: the registry's product
Visible(st, f, part) == { <<s, d>> \in st.master.S \X st.master.D : TRUE }
Readable(st, f, part) == \A s \in st.master.S, d \in st.master.D : Has(st.pred, << <<d, s, f>>, part >>)
Complete(st, key, o) == Has(st.pred, <<key, "test">>) /\ (Has(st.pred, <<key, "train">>) \/ ~o.pot)
                        /\ (Has(st.fitted, key) \/ ~o.sf)
RunKeys(o) == {k \in AllKeys : k[2] <= o.ns}
NCalls(o) == ND * o.ns * NF * (IF o.pot THEN 3 ELSE 2)                \* calls of an uninterrupted run on an empty store
=============================================================================
