----------------------------- MODULE TracePurity -----------------------------
(* Validates recorded scenarios: events [tid, i, op, m, efp, dfp, rfp, d0]; the  *)
(* first event of a scenario (i = 1) carries d0, the fingerprint of the caller's  *)
(* data before anything was called.                                               *)
EXTENDS Purity, Json, IOUtils
Trace == ndJsonDeserialize(IOEnv.TRACE_FILE)
VARIABLES l, st
tvars == <<est, data, res, l, st>>
TInit == est = 0 /\ data = 0 /\ res = [m \in Methods |-> 0] /\ l = 1 /\ st = "reset"
Reset == /\ st = "reset" /\ l <= Len(Trace)
         /\ est' = 0 /\ data' = Trace[l].d0 /\ res' = [m \in Methods |-> 0] /\ st' = "run" /\ UNCHANGED l
NextSt(k) == IF k > Len(Trace) THEN "end" ELSE IF Trace[k].i = 1 THEN "reset" ELSE "run"
Act(e) == IF e.op = "fit" THEN Fit(e) ELSE IF e.op = "fit2" THEN Fit2(e) ELSE Apply(e)
Step == /\ st = "run" /\ l <= Len(Trace)
        /\ LET e == Trace[l] IN
             \/ /\ Act(e) /\ l' = l + 1 /\ st' = NextSt(l + 1)
             \/ /\ ~ENABLED Act(e)
                /\ PrintT(<<"REJECT", e.tid, PClause(e)>>)
                /\ UNCHANGED <<est, data, res>> /\ l' = l + 1 /\ st' = "skip"
Skip == /\ st = "skip"
        /\ IF l > Len(Trace) THEN st' = "end" /\ l' = l
           ELSE IF Trace[l].i = 1 THEN st' = "reset" /\ l' = l ELSE st' = "skip" /\ l' = l + 1
        /\ UNCHANGED <<est, data, res>>
End == st = "end" /\ PrintT(<<"DONE", Len(Trace)>>) /\ st' = "finished" /\ UNCHANGED <<est, data, res, l>>
TNext == Reset \/ Step \/ Skip \/ End
TSpec == TInit /\ [][TNext]_tvars
=============================================================================
