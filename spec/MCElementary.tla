---------------------------- MODULE MCElementary ----------------------------
EXTENDS Elementary, TLC, Json
CONSTANTS MaxLenY, EmitVectors, EmitMod, YVals
YVals3 == {-1, 2, 3}
YVals4 == {-1, 0, 2, 3}
VARIABLES stage, cfg
vars == <<stage, cfg>>
Blank == [kind |-> "", strategy |-> "last", sp |-> 1, w |-> 0, y |-> << >>, fh |-> <<1>>, deg |-> 1, icpt |-> TRUE]
Init == stage = "kind" /\ cfg = Blank
PickKind ==
    /\ stage = "kind"
    /\ \/ \E s \in {"last", "mean", "drift"}, sp \in 1..3, w \in 0..5 :
             /\ (s = "drift" => sp = 1) /\ (s = "last" => w = 0) /\ (s = "drift" => w # 1)
             /\ (s = "mean" /\ sp > 1 /\ w # 0 => w >= sp)
             /\ cfg' = [cfg EXCEPT !.kind = "naive", !.strategy = s, !.sp = sp, !.w = w]
       \/ \E d \in 0..2, ic \in BOOLEAN : (d = 0 => ic) /\ cfg' = [cfg EXCEPT !.kind = "poly", !.deg = d, !.icpt = ic]
    /\ stage' = "y"
PickY == /\ stage = "y"
         /\ \/ /\ Len(cfg.y) < MaxLenY /\ \E v \in YVals : cfg' = [cfg EXCEPT !.y = Append(@, v)] /\ stage' = "y"
            \/ /\ Len(cfg.y) >= (IF cfg.kind = "poly" THEN cfg.deg + 2 ELSE IF cfg.w = 0 THEN cfg.sp + 1 ELSE cfg.w)
               /\ Len(cfg.y) >= cfg.sp + 1 /\ Len(cfg.y) >= 3
               /\ cfg' = cfg /\ stage' = "fh"
FhChoices == { <<1>>, <<1, 2, 3>>, <<2, 5>>, <<3>>, <<1, 4>>, <<-1, 0, 1, 2>>, <<0>>, <<-2, 1>> }
PickFh ==
    /\ stage = "fh"
    /\ \E f \in FhChoices, miss \in 0..Len(cfg.y) :
          /\ \* in-sample steps: polynomial anywhere inside the series; naive only for non-seasonal
             \* strategies and where the one-step-ahead window is complete
             \A i \in DOMAIN f : f[i] <= 0 =>
                 /\ Len(cfg.y) - 1 + f[i] >= 0
                 /\ (cfg.kind = "naive" => (cfg.sp = 1 /\ cfg.w # 0 /\ Len(cfg.y) - 1 + f[i] - 1 - cfg.w + 1 >= 0))
          /\ \* one missing observation, for the mean strategies only, never the whole window / season
             (miss > 0 => (cfg.kind = "naive" /\ cfg.strategy = "mean" /\ \A i \in DOMAIN f : f[i] >= 1
                           /\ W(cfg) >= 2 * cfg.sp + 1 /\ miss > Len(cfg.y) - W(cfg)))
          /\ cfg' = [cfg EXCEPT !.fh = f, !.y = [t \in DOMAIN cfg.y |-> IF t = miss THEN MISS ELSE cfg.y[t]]]
    /\ stage' = "done"
Next == PickKind \/ PickY \/ PickFh
Spec == Init /\ [][Next]_vars
Done == stage = "done"
\* design checks on the definitions
Inv_LeastSquares == (Done /\ cfg.kind = "poly") => Orthogonal(cfg)
\* seasonal forecasts repeat with the period; non-seasonal last/mean are constant over the horizon
Inv_SeasonalRepeats ==
    (Done /\ cfg.kind = "naive" /\ cfg.strategy \in {"last", "mean"}) =>
        \A i, j \in DOMAIN cfg.fh :
            (cfg.fh[i] >= 1 /\ cfg.fh[j] >= 1 /\ (cfg.fh[i] - cfg.fh[j]) % cfg.sp = 0)
                => Forecast(cfg)[i] = Forecast(cfg)[j]
\* drift extrapolates the straight line through the window's end points: equal increments per step
Inv_DriftIsLinear ==
    (Done /\ cfg.kind = "naive" /\ cfg.strategy = "drift" /\ cfg.fh = <<1, 2, 3>>) =>
        Sub(Forecast(cfg)[2], Forecast(cfg)[1]) = Sub(Forecast(cfg)[3], Forecast(cfg)[2])
Thin == (3 * SumI(cfg.y) + Len(cfg.y) + cfg.w + 1000) % EmitMod = 0
Emit == (Done /\ EmitVectors /\ Thin) =>
            PrintT(ToJson([cfg |-> cfg, exp |-> Forecast(cfg), index |-> Index(cfg)]))
=============================================================================
