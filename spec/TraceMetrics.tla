---------------------------- MODULE TraceMetrics ----------------------------
(* Trace validation for Metrics.tla.  Each line: [tid, cfg, obs] where obs is *)
(* what the real function returned, decoded to exact numbers: obs.cols[j] (or   *)
(* obs.val) is a 17-tuple, entry k+9 holding <<n, d>> if value^pow / EPS^k is    *)
(* the rational n/d (else << >>), for k = -8..8.  A value v = <<n,d,k>> of the   *)
(* specification matches iff entry k+9 equals <<n, d>>.                          *)
EXTENDS Metrics, TLC, Json, IOUtils
Trace == ndJsonDeserialize(IOEnv.TRACE_FILE)
VARIABLE l
TInit == l = 1
Matches(v, o) == v[3] \in -8..8 /\ o[v[3] + 9] = <<v[1], v[2]>>
Ok(e) ==
    LET r == Result(e.cfg) IN
    /\ e.obs.pow = Power(e.cfg)
    /\ IF r.kind = "raw"
       THEN /\ Len(e.obs.cols) = Len(r.cols)
            /\ \A j \in DOMAIN r.cols : \E v \in r.cols[j] : Matches(v, e.obs.cols[j])
       ELSE Len(e.obs.cols) = 1 /\ Matches(r.val, e.obs.cols[1])
Verdict(e) == IF Ok(e) THEN TRUE ELSE PrintT(<<"REJECT", e.tid, "ValueIsNotTheDefinition">>)
TNext == \/ l <= Len(Trace) /\ Verdict(Trace[l]) /\ l' = l + 1
         \/ l = Len(Trace) + 1 /\ PrintT(<<"DONE", Len(Trace)>>) /\ l' = l + 1
TSpec == TInit /\ [][TNext]_l
=============================================================================
