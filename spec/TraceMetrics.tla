---------------------------- MODULE TraceMetrics ----------------------------
(* Trace validation for Metrics.tla.  Each line: [tid, cfg, obs] where obs is *)
(* what the real function returned, decoded to exact numbers: obs.cols[j] (or   *)
(* obs.val) is the list of all triples <<k, n, d>> such that value^pow / EPS^k is    *)
(* the rational n/d.  A value v = <<n,d,k>> of the specification matches iff the list   *)
(* contains <<k, n, d>>.                                                               *)
EXTENDS Metrics, TLC, Json, IOUtils
Trace == ndJsonDeserialize(IOEnv.TRACE_FILE)
VARIABLE l
TInit == l = 1
Matches(v, o) == \E i \in DOMAIN o : o[i] = <<v[3], v[1], v[2]>> \/ (v[1] = 0 /\ o[i] = <<0, 0, 1>>)
Ok(e) ==
    LET r == Result(e.cfg) IN
    /\ e.obs.pow = Power(e.cfg)
    /\ IF r.kind = "raw"
       THEN /\ Len(e.obs.cols) = Len(r.cols)
            /\ \A j \in DOMAIN r.cols : \E v \in r.cols[j] : Matches(v, e.obs.cols[j])
       ELSE Len(e.obs.cols) = 1 /\ Matches(r.val, e.obs.cols[1])
Verdict(e) == IF Ok(e) THEN TRUE ELSE PrintT(<<"REJECT", e.tid, "ValueIsNotTheDefinition">>)
TNext == \/ l <= Len(Trace) /\ Verdict(Trace[l]) /\ l' = l + 1
         \/ l = Len(Trace) + 1 /\ PrintT(<<"DONE", Len(Trace)>>) /\ l' = l + 1
TSpec == TInit /\ [][TNext]_l
=============================================================================
