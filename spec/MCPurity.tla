------------------------------ MODULE MCPurity ------------------------------
(* Every interleaving of up to MaxCalls apply-type calls over a method profile, *)
(* followed by the copies (pickle / twin / other n_jobs) applying each method.   *)
(* In the model results are a function of the method only (a pure estimator), so *)
(* the invariants state what purity means for any such history.                   *)
EXTENDS Purity, Json
CONSTANTS MaxCalls, EmitVectors
VARIABLES plan, pc
vars == <<est, data, res, plan, pc>>
MethodNo(m) == CASE m = "transform" -> 1 [] m = "inverse_transform" -> 2 [] m = "predict" -> 3 [] m = "predict_proba" -> 4 [] m = "predict_insample" -> 5
Init == PInit(7) /\ plan = << >> /\ pc = "fit"
DoFit == /\ pc = "fit" /\ Fit([op |-> "fit", m |-> "", efp |-> 11, dfp |-> 7, rfp |-> 0])
         /\ plan' = <<"fit">> /\ pc' = "apply"
DoApply == /\ pc = "apply" /\ Len(plan) < MaxCalls + 1
           /\ \E m \in Methods : /\ Apply([op |-> "apply", m |-> m, efp |-> 11, dfp |-> 7, rfp |-> 100 + MethodNo(m)])
                                 /\ plan' = Append(plan, m)
           /\ UNCHANGED pc
Finish == pc = "apply" /\ Len(plan) > 1 /\ pc' = "done" /\ UNCHANGED <<est, data, res, plan>>
Next == DoFit \/ DoApply \/ Finish
Spec == Init /\ [][Next]_vars
Inv_EstimatorStable == est \in {0, 11}
Inv_DataStable == data = 7
Inv_ResultsRepeat == \A m \in Methods : res[m] \in {0, 100 + MethodNo(m)}
Emit == (pc = "done" /\ EmitVectors) => PrintT(ToJson([plan |-> plan]))
=============================================================================
