------------------------------ MODULE MCPurity ------------------------------
(* Every interleaving of up to MaxCalls apply-type calls over a method profile, *)
(* followed by the copies (pickle / twin / other n_jobs) applying each method.   *)
(* In the model results are a function of the method only (a pure estimator), so *)
(* the invariants state what purity means for any such history.                   *)
EXTENDS Purity, Json
CONSTANTS MaxCalls, EmitVectors
VARIABLES plan, pc
vars == <<est, data, res, plan, pc>>
MethodNo(m) == CASE m = "transform" -> 1 [] m = "inverse_transform" -> 2 [] m = "predict" -> 3 [] m = "predict_proba" -> 4 [] m = "predict_insample" -> 5
Init == PInit(7) /\ plan = << >> /\ pc = "fit"
DoFit == /\ pc = "fit" /\ Fit([op |-> "fit", m |-> "", efp |-> 11, dfp |-> 7, rfp |-> 0])
         /\ plan' = <<"fit">> /\ pc' = "apply"
DoApply == /\ pc = "apply" /\ Len(plan) < MaxCalls + 1
           /\ \E m \in Methods : /\ Apply([op |-> "apply", m |-> m, efp |-> 11, dfp |-> 7, rfp |-> 100 + MethodNo(m)])
                                 /\ plan' = Append(plan, m)
           /\ UNCHANGED pc
Finish == pc = "apply" /\ Len(plan) > 1 /\ pc' = "done" /\ UNCHANGED <<est, data, res, plan>>
\* after the plan: the object is fitted again on other data (fingerprint 8; fitted state 12; results 200 + method),
\* applied, and compared with a fresh estimator fitted on that data only
DoFit2 == /\ pc = "done" /\ Fit2([op |-> "fit2", m |-> "", efp |-> 12, dfp |-> 8, d2 |-> 8, rfp |-> 0])
          /\ pc' = "refitted" /\ UNCHANGED plan
DoApply2 == /\ pc = "refitted"
            /\ \E m \in Methods, who \in {"apply", "fresh"} :
                   Apply([op |-> who, m |-> m, efp |-> 12, dfp |-> 8, rfp |-> 200 + MethodNo(m)])
            /\ UNCHANGED <<plan, pc>>
Next == DoFit \/ DoApply \/ Finish \/ DoFit2 \/ DoApply2
Spec == Init /\ [][Next]_vars
Inv_EstimatorStable == est \in (IF pc = "refitted" THEN {12} ELSE {0, 11})
Inv_DataStable == data = (IF pc = "refitted" THEN 8 ELSE 7)
Inv_ResultsRepeat == \A m \in Methods : res[m] \in (IF pc = "refitted" THEN {0, 200 + MethodNo(m)} ELSE {0, 100 + MethodNo(m)})
Emit == (pc = "done" /\ EmitVectors) => PrintT(ToJson([plan |-> plan]))
=============================================================================
