---------------------------- MODULE TracePanelRows ----------------------------
EXTENDS PanelEstim, TLC, Json, IOUtils
Trace == ndJsonDeserialize(IOEnv.TRACE_FILE)
VARIABLE l
TInit == l = 1
Verdict(e) == IF RowwiseOk(e.cfg, e.obs) THEN TRUE ELSE PrintT(<<"REJECT", e.tid, RowClause(e.cfg, e.obs)>>)
TNext == \/ l <= Len(Trace) /\ Verdict(Trace[l]) /\ l' = l + 1
         \/ l = Len(Trace) + 1 /\ PrintT(<<"DONE", Len(Trace)>>) /\ l' = l + 1
TSpec == TInit /\ [][TNext]_l
=============================================================================
