--------------------------- MODULE TraceReduction ---------------------------
EXTENDS Reduction, Json, IOUtils
Trace == ndJsonDeserialize(IOEnv.TRACE_FILE)
VARIABLE l
TInit == l = 1
WellFormed(c, o) ==
    /\ \A f \in DOMAIN o.fits : Len(o.fits[f].X) = Len(o.fits[f].y)
                               /\ \A r \in DOMAIN o.fits[f].X : Len(o.fits[f].X[r]) >= c.w
    /\ \A p \in DOMAIN o.preds : Len(o.preds[p]) >= c.w
Failing(c, o) ==
    IF ~WellFormed(c, o) THEN "MalformedCall" ELSE
    LET bad == { i \in DOMAIN RClauseNames : ~RClauseHolds(i, c, o) } IN
    IF bad = {} THEN "CallsDiffer" ELSE RClauseNames[CHOOSE i \in bad : \A j \in bad : i <= j]
Verdict(e) ==
    LET exp == Expected(e.cfg) IN
    IF e.obs = exp THEN TRUE
    ELSE PrintT(<<"REJECT", e.tid,
                  IF e.obs.rej # exp.rej THEN (IF exp.rej THEN "ShouldReject" ELSE "ShouldAccept")
                  ELSE Failing(e.cfg, e.obs)>>)
TNext == \/ l <= Len(Trace) /\ Verdict(Trace[l]) /\ l' = l + 1
         \/ l = Len(Trace) + 1 /\ PrintT(<<"DONE", Len(Trace)>>) /\ l' = l + 1
TSpec == TInit /\ [][TNext]_l
=============================================================================
