---------------------------- MODULE TraceHorizon ----------------------------
EXTENDS Horizon, TLC, Json, IOUtils
Trace == ndJsonDeserialize(IOEnv.TRACE_FILE)
VARIABLE l
TInit == l = 1
Failing(e) ==
    LET bad == { i \in DOMAIN HClauseNames : ~HClauseHolds(i, e.raw, e.cut, e.obs) } IN
    IF bad = {} THEN "ObservationDiffers" ELSE HClauseNames[CHOOSE i \in bad : \A j \in bad : i <= j]
Verdict(e) ==
    LET exp == Expected(e.raw, e.cut, e.start) IN
    IF e.obs = exp THEN TRUE
    ELSE PrintT(<<"REJECT", e.tid,
                  IF e.obs.rej # exp.rej THEN (IF exp.rej THEN "RejectsNotCoerces" ELSE "ValidAccepted")
                  ELSE Failing(e)>>)
TNext == \/ l <= Len(Trace) /\ Verdict(Trace[l]) /\ l' = l + 1
         \/ l = Len(Trace) + 1 /\ PrintT(<<"DONE", Len(Trace)>>) /\ l' = l + 1
TSpec == TInit /\ [][TNext]_l
=============================================================================
