------------------------------- MODULE MCTsFile -------------------------------
EXTENDS TsFile, Json
CONSTANTS MaxCases, EmitVectors
VARIABLES stage, cfg
vars == <<stage, cfg>>
LabelSets == { << >>, << <<"a", "a">>, <<"b", "b">> >>, << <<"0", "0">>, <<"1", "1">>, <<"3", "3">> >>,
               << <<"Ab", "ab">>, <<"cD", "cd">> >>,
               \* label sets of a single class (every instance carries the same label), numeric and not
               << <<"7", "7">> >>, << <<"z", "z">> >> }
Init == stage = "opts" /\ cfg = [opts |-> [comment |-> FALSE, equal |-> FALSE, labelled |-> FALSE], labels |-> << >>,
                                 panel |-> << >>, mut |-> "none", lines |-> << >>]
PickOpts == /\ stage = "opts"
            /\ \E c \in BOOLEAN, e \in BOOLEAN, ls \in LabelSets :
                   cfg' = [cfg EXCEPT !.opts = [comment |-> c, equal |-> e, labelled |-> (Len(ls) > 0)], !.labels = ls]
            /\ stage' = "panel"
AddCase == /\ stage = "panel" /\ Len(cfg.panel) < MaxCases
           /\ \E len \in 2..3, v0 \in 1..4, li \in 1..3 :
                  /\ (Len(cfg.panel) > 0 => len = Len(cfg.panel[1].vals))
                  /\ (cfg.opts.labelled => li <= Len(cfg.labels)) /\ (~cfg.opts.labelled => li = 1)
                  /\ cfg' = [cfg EXCEPT !.panel = Append(@, [vals |-> [k \in 1..len |-> ((v0 + k + Len(cfg.panel)) % 6) + 1],
                                                            lab |-> (IF cfg.opts.labelled THEN cfg.labels[li] ELSE NoLab)])]
           /\ UNCHANGED stage
\* single-line mutations of the written header (parser direction)
W == WriterLines(cfg.opts, cfg.panel, cfg.labels)
Remove(s, i) == [j \in 1..(Len(s) - 1) |-> IF j < i THEN s[j] ELSE s[j + 1]]
Insert(s, i, x) == [j \in 1..(Len(s) + 1) |-> IF j < i THEN s[j] ELSE IF j = i THEN x ELSE s[j - 1]]
HeaderIdx == { i \in DOMAIN W : W[i].k \in {"problemName", "timeStamps", "univariate", "classLabel", "data"} }
Mutants ==
    { [m |-> "none", lines |-> W] }
    \cup { [m |-> "missing", lines |-> Remove(W, i)] : i \in HeaderIdx }
    \cup { [m |-> "duplicate", lines |-> Insert(W, i, W[i])] : i \in HeaderIdx \ {i \in DOMAIN W : W[i].k = "data"} }
    \cup { [m |-> "after_data", lines |-> Append(Remove(W, i), W[i])] : i \in { j \in HeaderIdx : W[j].k # "data" } }
    \cup { [m |-> "bad_boolean", lines |-> [W EXCEPT ![i].b = "maybe"]] : i \in { j \in DOMAIN W : W[j].k \in {"timeStamps", "univariate", "classLabel"} } }
    \cup { [m |-> "no_value", lines |-> [W EXCEPT ![i].b = ""]] : i \in { j \in DOMAIN W : W[j].k \in {"problemName", "timeStamps"} } }
    \cup { [m |-> "data_with_value", lines |-> [W EXCEPT ![i].b = "x"]] : i \in { j \in DOMAIN W : W[j].k = "data" } }
    \cup { [m |-> "unknown_label", lines |-> [W EXCEPT ![Len(W)].lab = <<"Zz", "zz">>]] : x \in {1} }
    \cup { [m |-> "unknown_tag", lines |-> Insert(W, 2, L("unknownTag", "", 0, << >>, << >>, NoLab))] : x \in {1} }
Finish == /\ stage = "panel" /\ Len(cfg.panel) > 0
          /\ \E mu \in Mutants : cfg' = [cfg EXCEPT !.mut = mu.m, !.lines = mu.lines]
          /\ stage' = "done"
Next == PickOpts \/ AddCase \/ Finish
Spec == Init /\ [][Next]_vars
Done == stage = "done"
Inv_ParserAcceptsWriterOutput == (Done /\ cfg.mut = "none") => ~Parse(cfg.lines).rej
Inv_RoundTrip == (Done /\ cfg.mut = "none") => RoundTrip(cfg.opts, cfg.panel, cfg.labels)
\* a well-formed header is required: every structural mutation is rejected ...
Inv_WellFormedHeaderRequired ==
    (Done /\ cfg.mut \in {"missing", "after_data", "bad_boolean", "no_value", "data_with_value"}) => Parse(cfg.lines).rej
\* ... while harmless variations (a repeated tag, an unknown tag before the data) are not
Inv_HarmlessVariationsAccepted == (Done /\ cfg.mut \in {"duplicate", "unknown_tag"}) => ~Parse(cfg.lines).rej
Emit == (Done /\ EmitVectors) => PrintT(ToJson([cfg |-> cfg, written |-> W, parsed |-> Parse(cfg.lines)]))
=============================================================================
