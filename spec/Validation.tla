------------------------------ MODULE Validation ------------------------------
(***************************************************************************)
(* Malformed data, horizons and settings are rejected, never silently       *)
(* mis-handled (property C20).                                              *)
(*                                                                         *)
(* Applicable(entry) is the table of fault classes each forecasting entry    *)
(* point accepts as argument at all (each line is justified by a phrase of   *)
(* the property statement; pairs for which the library documents no check    *)
(* are not in the table).  A call is described by what happened:             *)
(*   outcome  "rejected" (ValueError / TypeError / NotImplementedError),     *)
(*            "returned" (a result was produced), "other" (another exception)*)
(*   fitted_before / fitted_after  the estimator's is_fitted flag            *)
(*   control  outcome of the paired valid call that differs from the faulty  *)
(*            one only in the offending aspect                               *)
(***************************************************************************)
EXTENDS Integers, Sequences, FiniteSets, TLC

Entries == {"ForecastingHorizon", "cutoff.split", "ensemble.fit", "ensemble.predict", "ensemble.update", "evaluate", "expanding.split", "make_reduction", "multiplexer.fit", "naive.fit", "naive.predict", "naive.update", "pipeline.fit", "pipeline.predict", "poly.fit", "poly.predict", "poly.update", "reduce_direct.fit", "reduce_direct.predict", "reduce_dirrec.fit", "reduce_dirrec.predict", "reduce_multioutput.fit", "reduce_multioutput.predict", "reduce_recursive.fit", "reduce_recursive.predict", "reduce_recursive.update", "sliding.split", "stacking.fit", "temporal_train_test_split", "theta.fit", "tuner.fit", "tuner.predict"}
Faults == {"array_target", "composite_duplicate_names", "composite_duplicate_names_after_valid_fit", "composite_empty", "composite_last_step_not_a_forecaster", "composite_last_step_not_a_forecaster_after_valid_fit", "composite_member_not_a_forecaster", "composite_name_clashes_with_optional_parameter", "composite_name_clashes_with_parameter", "composite_name_clashes_with_parameter_after_valid_fit", "composite_name_with_dunder", "composite_name_with_dunder_after_valid_fit", "composite_step_not_a_transformer", "composite_step_not_a_transformer_after_valid_fit", "cutoff_beyond_series", "cv_not_a_splitter", "duplicate_horizon", "empty_horizon", "empty_index", "fractional_horizon", "horizon_and_size_both_given", "horizon_differs_from_fit", "initial_window_larger_than_series", "initial_window_not_larger_than_window", "insample_horizon", "missing_horizon", "missing_horizon_after_rejected_fit", "multivariate_target", "none_horizon", "scoring_not_callable", "seasonal_window_larger_than_series", "sp_noninteger", "sp_nonpositive", "sp_wrongtype", "start_with_window_false", "step_noninteger", "step_nonpositive", "timepoints_as_relative_horizon", "unknown_selected_forecaster", "unknown_strategy", "unsorted_index", "window_larger_than_series", "window_larger_than_series_not_starting_with_window", "window_negative", "window_noninteger", "window_nonpositive", "wrongtype_horizon", "wrongtype_is_relative", "x_index_differs", "x_index_shorter", "x_index_superset"}
Applicable(e) ==
    CASE e = "ForecastingHorizon" -> {"duplicate_horizon", "fractional_horizon", "none_horizon", "timepoints_as_relative_horizon", "wrongtype_horizon", "wrongtype_is_relative"}
    [] e = "cutoff.split" -> {"cutoff_beyond_series"}
    [] e = "ensemble.fit" -> {"array_target", "composite_duplicate_names", "composite_empty", "composite_member_not_a_forecaster", "composite_name_clashes_with_optional_parameter", "composite_name_clashes_with_parameter", "composite_name_with_dunder", "duplicate_horizon", "empty_horizon", "empty_index", "fractional_horizon", "multivariate_target", "timepoints_as_relative_horizon", "unsorted_index", "wrongtype_horizon", "x_index_differs"}
    [] e = "ensemble.predict" -> {"duplicate_horizon", "empty_horizon", "fractional_horizon", "missing_horizon", "timepoints_as_relative_horizon", "wrongtype_horizon"}
    [] e = "ensemble.update" -> {"array_target", "multivariate_target", "unsorted_index"}
    [] e = "evaluate" -> {"multivariate_target", "scoring_not_callable", "start_with_window_false", "unknown_strategy", "unsorted_index", "window_larger_than_series", "x_index_differs", "x_index_superset"}
    [] e = "expanding.split" -> {"duplicate_horizon", "empty_horizon", "fractional_horizon", "step_noninteger", "step_nonpositive", "unsorted_index", "window_larger_than_series", "window_larger_than_series_not_starting_with_window", "window_noninteger", "window_nonpositive", "wrongtype_horizon"}
    [] e = "make_reduction" -> {"unknown_strategy"}
    [] e = "multiplexer.fit" -> {"composite_duplicate_names", "composite_empty", "composite_member_not_a_forecaster", "composite_name_clashes_with_optional_parameter", "composite_name_clashes_with_parameter", "composite_name_with_dunder", "unknown_selected_forecaster"}
    [] e = "naive.fit" -> {"array_target", "duplicate_horizon", "empty_horizon", "empty_index", "fractional_horizon", "multivariate_target", "seasonal_window_larger_than_series", "sp_noninteger", "sp_nonpositive", "sp_wrongtype", "timepoints_as_relative_horizon", "unknown_strategy", "unsorted_index", "window_larger_than_series", "window_negative", "window_noninteger", "window_nonpositive", "wrongtype_horizon", "x_index_differs", "x_index_shorter", "x_index_superset"}
    [] e = "naive.predict" -> {"duplicate_horizon", "empty_horizon", "fractional_horizon", "missing_horizon", "timepoints_as_relative_horizon", "wrongtype_horizon"}
    [] e = "naive.update" -> {"array_target", "multivariate_target", "unsorted_index"}
    [] e = "pipeline.fit" -> {"array_target", "composite_duplicate_names", "composite_duplicate_names_after_valid_fit", "composite_last_step_not_a_forecaster", "composite_last_step_not_a_forecaster_after_valid_fit", "composite_name_clashes_with_parameter", "composite_name_clashes_with_parameter_after_valid_fit", "composite_name_with_dunder", "composite_name_with_dunder_after_valid_fit", "composite_step_not_a_transformer", "composite_step_not_a_transformer_after_valid_fit", "duplicate_horizon", "empty_horizon", "empty_index", "fractional_horizon", "multivariate_target", "timepoints_as_relative_horizon", "unsorted_index", "wrongtype_horizon"}
    [] e = "pipeline.predict" -> {"duplicate_horizon", "empty_horizon", "fractional_horizon", "horizon_differs_from_fit", "missing_horizon", "timepoints_as_relative_horizon", "wrongtype_horizon"}
    [] e = "poly.fit" -> {"array_target", "duplicate_horizon", "empty_horizon", "empty_index", "fractional_horizon", "multivariate_target", "timepoints_as_relative_horizon", "unsorted_index", "wrongtype_horizon"}
    [] e = "poly.predict" -> {"duplicate_horizon", "empty_horizon", "fractional_horizon", "missing_horizon", "timepoints_as_relative_horizon", "wrongtype_horizon"}
    [] e = "poly.update" -> {"array_target", "multivariate_target", "unsorted_index"}
    [] e = "reduce_direct.fit" -> {"missing_horizon", "missing_horizon_after_rejected_fit"}
    [] e = "reduce_direct.predict" -> {"horizon_differs_from_fit"}
    [] e = "reduce_dirrec.fit" -> {"missing_horizon", "missing_horizon_after_rejected_fit"}
    [] e = "reduce_dirrec.predict" -> {"horizon_differs_from_fit"}
    [] e = "reduce_multioutput.fit" -> {"missing_horizon", "missing_horizon_after_rejected_fit"}
    [] e = "reduce_multioutput.predict" -> {"horizon_differs_from_fit"}
    [] e = "reduce_recursive.fit" -> {"array_target", "duplicate_horizon", "empty_horizon", "empty_index", "fractional_horizon", "multivariate_target", "timepoints_as_relative_horizon", "unsorted_index", "window_larger_than_series", "window_noninteger", "window_nonpositive", "wrongtype_horizon", "x_index_differs", "x_index_shorter", "x_index_superset"}
    [] e = "reduce_recursive.predict" -> {"duplicate_horizon", "empty_horizon", "fractional_horizon", "missing_horizon", "timepoints_as_relative_horizon", "wrongtype_horizon"}
    [] e = "reduce_recursive.update" -> {"array_target", "multivariate_target", "unsorted_index"}
    [] e = "sliding.split" -> {"duplicate_horizon", "empty_horizon", "fractional_horizon", "initial_window_larger_than_series", "initial_window_not_larger_than_window", "step_noninteger", "step_nonpositive", "unsorted_index", "window_larger_than_series", "window_larger_than_series_not_starting_with_window", "window_noninteger", "window_nonpositive", "wrongtype_horizon"}
    [] e = "stacking.fit" -> {"composite_duplicate_names", "composite_empty", "composite_member_not_a_forecaster", "composite_name_clashes_with_optional_parameter", "composite_name_clashes_with_parameter", "composite_name_with_dunder", "missing_horizon"}
    [] e = "temporal_train_test_split" -> {"horizon_and_size_both_given", "insample_horizon", "x_index_differs"}
    [] e = "theta.fit" -> {"sp_noninteger", "sp_nonpositive", "sp_wrongtype"}
    [] e = "tuner.fit" -> {"array_target", "cv_not_a_splitter", "duplicate_horizon", "empty_horizon", "empty_index", "fractional_horizon", "multivariate_target", "timepoints_as_relative_horizon", "unknown_strategy", "unsorted_index", "window_larger_than_series", "wrongtype_horizon"}
    [] e = "tuner.predict" -> {"duplicate_horizon", "empty_horizon", "fractional_horizon", "missing_horizon", "timepoints_as_relative_horizon", "wrongtype_horizon"}
      [] OTHER -> {}

\* the property for one faulty call and its control
FaultRejected(c) == c.outcome = "rejected"
NoFittedStateAfterReject(c) == c.fitted_after = c.fitted_before
ControlAccepted(c) == c.control = "returned"
InTable(c) == c.entry \in Entries /\ c.fault \in Applicable(c.entry)
CallOk(c) == InTable(c) /\ FaultRejected(c) /\ NoFittedStateAfterReject(c) /\ ControlAccepted(c)
CallClause(c) == IF ~InTable(c) THEN "PairNotInApplicableTable"
                 ELSE IF ~FaultRejected(c) THEN "FaultRejected"
                 ELSE IF ~NoFittedStateAfterReject(c) THEN "NoFittedStateAfterReject" ELSE "ControlAccepted"

(* Fault sequences on a forecaster: calls "fit", "predict", "update" and one faulty call "F" (a faulty     *)
(* fit at any point -- also on an already fitted forecaster, which must go on answering from what it had    *)
(* accepted before --, or a faulty predict / update after fit).  The abstract forecaster state is           *)
(* (fitted, number of accepted data calls); a rejected call stutters on it.                                  *)
VARIABLES fitted, ndata, plan
svars == <<fitted, ndata, plan>>
SInit == fitted = FALSE /\ ndata = 0 /\ plan = << >>
Valid(op) == /\ (op \in {"predict", "update"} => fitted)
             /\ fitted' = (fitted \/ op = "fit") /\ ndata' = ndata + (IF op \in {"fit", "update"} THEN 1 ELSE 0)
             /\ plan' = Append(plan, op)
Faulty(kind) == /\ (kind \in {"F_predict", "F_update"} => fitted)
                /\ \A i \in DOMAIN plan : plan[i] \notin {"F_fit", "F_predict", "F_update"}    \* one fault per sequence
                /\ UNCHANGED <<fitted, ndata>> /\ plan' = Append(plan, kind)                     \* rejected: no state change
=============================================================================
