------------------------------ MODULE TraceTsFile ------------------------------
EXTENDS TsFile, Json, IOUtils
Trace == ndJsonDeserialize(IOEnv.TRACE_FILE)
VARIABLE l
TInit == l = 1
\* kinds of records: "write" (file lines produced by the real writer + what the real loader returned for them),
\* "parse" (spec-rendered lines loaded by the real loader), "dataset" (loader relations), "formats" (one labelled,
\* equal-length panel rendered as .arff and as UCR .tsv text and loaded by the real loaders: same cases, same order,
\* same labels as the .ts rendering)
Ok(e) ==
    CASE e.kind = "write" ->
            /\ e.lines = WriterLines(e.opts, e.panel, e.labels)
            /\ e.loaded = [rej |-> FALSE, cases |-> Normalised(e.panel, e.opts.labelled), labelled |-> e.opts.labelled]
      [] e.kind = "parse" -> e.loaded = Parse(e.lines)
      [] e.kind = "formats" -> e.arff = e.ts /\ e.tsv = e.ts
      [] e.kind = "dataset" -> (e.has_formats => FormatsAgree(e.d)) /\ SplitNoneIsTrainThenTest(e.d) /\ XyFormEqualsFrameForm(e.d)
Clause(e) ==
    CASE e.kind = "write" -> IF e.lines # WriterLines(e.opts, e.panel, e.labels) THEN "WriterEmitsDocumentedLines" ELSE "RoundTrip"
      [] e.kind = "parse" -> IF e.loaded.rej # Parse(e.lines).rej THEN "WellFormedHeaderRequired" ELSE "ParsedPanel"
      [] e.kind = "formats" -> IF e.arff # e.ts THEN "ArffParsesToTheSamePanel" ELSE "TsvParsesToTheSamePanel"
      [] e.kind = "dataset" -> IF e.has_formats /\ ~FormatsAgree(e.d) THEN "FormatsAgree"
                               ELSE IF ~SplitNoneIsTrainThenTest(e.d) THEN "SplitNoneIsTrainThenTest" ELSE "XyFormEqualsFrameForm"
Verdict(e) == IF Ok(e) THEN TRUE ELSE PrintT(<<"REJECT", e.tid, Clause(e)>>)
TNext == \/ l <= Len(Trace) /\ Verdict(Trace[l]) /\ l' = l + 1
         \/ l = Len(Trace) + 1 /\ PrintT(<<"DONE", Len(Trace)>>) /\ l' = l + 1
TSpec == TInit /\ [][TNext]_l
=============================================================================
