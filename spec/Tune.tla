-------------------------------- MODULE Tune --------------------------------
(***************************************************************************)
(* Grid / randomized search over forecaster parameters (property C08).      *)
(*                                                                         *)
(* A configuration is [tables, gib, refit, kind, nest, n]:                   *)
(*   tables  one sequence of per-fold LOSSES per candidate (the candidate's  *)
(*           parameter value is this very table: the stub forecaster's       *)
(*           forecast in fold f is truth + tables[i][f], so its MAE in fold  *)
(*           f is exactly tables[i][f])                                      *)
(*   gib     the metric declares greater_is_better (score = -MAE) or not     *)
(*   refit   refit the best forecaster on the whole series                   *)
(*   kind    "grid" | "random";  nest: "plain" | "pipe" | "mux"              *)
(*   strat   "refit" | "update": how every candidate is carried from fold to *)
(*           fold (fit on every training window / fit once, then update)     *)
(*   n       series length; cv = expanding window, fh = [1], one fold per    *)
(*           table entry, last fold ending with the series                   *)
(* Scores are reported as folds * mean score (an integer).  The all-zero table  *)
(* stands for a candidate whose score is UNDEFINED in every fold (the stub      *)
(* forecasts NaN): its mean score is undefined (reported as Undef) and it is    *)
(* never the best one as long as another candidate is defined.                  *)
(***************************************************************************)
EXTENDS Integers, Sequences, FiniteSets, TLC

RECURSIVE SumSeq(_)
SumSeq(s) == IF Len(s) = 0 THEN 0 ELSE Head(s) + SumSeq(Tail(s))
NFolds(c) == Len(c.tables[1])
\* folds * mean CV score of candidate i, with the sign the metric reports
Undef == -999999
Defined(c, i) == \E f \in DOMAIN c.tables[i] : c.tables[i][f] # 0
Score(c, i) == IF ~Defined(c, i) THEN Undef ELSE IF c.gib THEN -SumSeq(c.tables[i]) ELSE SumSeq(c.tables[i])
Better(c, a, b) == IF c.gib THEN a > b ELSE a < b            \* direction declared by the metric
BestSet(c) == { i \in DOMAIN c.tables : Defined(c, i) /\ \A j \in DOMAIN c.tables :
                                            Defined(c, j) => ~Better(c, Score(c, j), Score(c, i)) }
\* every candidate is evaluated on the same temporal splits: expanding windows, fold f trains on 0..(n-F+f-2)
Window(c, f) == <<0, c.n - NFolds(c) + f - 2>>
Windows(c) == [f \in 1..NFolds(c) |-> Window(c, f)]

TuneOk(c, o) ==
    /\ o.rows = [i \in DOMAIN c.tables |-> Score(c, i)]              \* cv_results_ row per candidate
    /\ o.indep = o.rows                                              \* = an independent evaluate() run
    /\ \A i \in DOMAIN c.tables : o.windows[i] = Windows(c)          \* same splits for every candidate
    /\ o.best_index \in BestSet(c)                                   \* best in the declared direction
    /\ o.best_score = Score(c, o.best_index)                         \* best_* describe the same row
    /\ o.best_params = o.best_index
    /\ o.updates = (IF c.strat = "update" THEN Len(c.tables) * (NFolds(c) - 1) ELSE 0)   \* the strategy asked for is the one used
    /\ o.template                                                    \* the forecaster handed to the tuner is left as it was
    /\ o.again                                                       \* fitting the same tuner again reports the same search
    /\ IF c.refit
       THEN /\ o.refit_window = <<0, c.n - 1>>                       \* best forecaster fitted on the whole series
            /\ o.delegates /\ o.cutoff = c.n - 1                     \* predict / update / cutoff as the best forecaster
            /\ o.notfitted = <<FALSE, FALSE, FALSE>>
       ELSE o.notfitted = <<TRUE, TRUE, TRUE>>                       \* predict, update, cutoff raise NotFittedError
TClause(c, o) ==
    IF o.rows # [i \in DOMAIN c.tables |-> Score(c, i)] THEN "RowsAreCandidateScores"
    ELSE IF o.indep # o.rows THEN "RowEqualsIndependentEvaluate"
    ELSE IF \E i \in DOMAIN c.tables : o.windows[i] # Windows(c) THEN "SameSplitsForAll"
    ELSE IF o.best_index \notin BestSet(c) THEN "BestIsArgBestInDeclaredDirection"
    ELSE IF o.best_score # Score(c, o.best_index) \/ o.best_params # o.best_index THEN "BestTripleConsistent"
    ELSE IF o.updates # (IF c.strat = "update" THEN Len(c.tables) * (NFolds(c) - 1) ELSE 0) THEN "StrategyAsRequested"
    ELSE IF ~o.template THEN "TemplateForecasterUntouched"
    ELSE IF ~o.again THEN "SecondFitReportsSameSearch"
    ELSE IF c.refit THEN (IF o.refit_window # <<0, c.n - 1>> THEN "RefitOnWholeSeries" ELSE "DelegatesToBest")
    ELSE "NoRefitRaisesNotFitted"
=============================================================================
