--------------------------- MODULE TraceElementary ---------------------------
EXTENDS Elementary, TLC, Json, IOUtils
Trace == ndJsonDeserialize(IOEnv.TRACE_FILE)
VARIABLE l
TInit == l = 1
Ok(e) == LET f == Forecast(e.cfg) IN
         /\ e.obs.index = Index(e.cfg)
         /\ Len(e.obs.vals) = Len(f)
         /\ \A i \in DOMAIN f : f[i][3] = 0 /\ e.obs.vals[i] = <<f[i][1], f[i][2]>>
Verdict(e) == IF Ok(e) THEN TRUE
              ELSE PrintT(<<"REJECT", e.tid, IF e.obs.index # Index(e.cfg) THEN "ForecastIndex" ELSE "TextbookValue">>)
TNext == \/ l <= Len(Trace) /\ Verdict(Trace[l]) /\ l' = l + 1
         \/ l = Len(Trace) + 1 /\ PrintT(<<"DONE", Len(Trace)>>) /\ l' = l + 1
TSpec == TInit /\ [][TNext]_l
=============================================================================
