---------------------------- MODULE TraceValidation ----------------------------
EXTENDS Validation, Json, IOUtils
Trace == ndJsonDeserialize(IOEnv.TRACE_FILE)
VARIABLE l
TInit == l = 1 /\ fitted = FALSE /\ ndata = 0 /\ plan = << >>
\* kind "call": one faulty call with its control; kind "seq": a fault sequence, same = the valid calls gave the same
\* results as in the fault-free sequence, rejected = the faulty call was rejected and left is_fitted unchanged
Ok(e) == IF e.kind = "call" THEN CallOk(e) ELSE (e.rejected /\ e.same)
Clause(e) == IF e.kind = "call" THEN CallClause(e)
             ELSE IF ~e.rejected THEN "FaultRejected" ELSE "RejectedCallLeavesNoTrace"
Verdict(e) == IF Ok(e) THEN TRUE ELSE PrintT(<<"REJECT", e.tid, Clause(e)>>)
TNext == \/ l <= Len(Trace) /\ Verdict(Trace[l]) /\ l' = l + 1 /\ UNCHANGED svars
         \/ l = Len(Trace) + 1 /\ PrintT(<<"DONE", Len(Trace)>>) /\ l' = l + 1 /\ UNCHANGED svars
TSpec == TInit /\ [][TNext]_<<l, fitted, ndata, plan>>
=============================================================================
