----------------------------- MODULE Elementary -----------------------------
(***************************************************************************)
(* Elementary forecasters compute the textbook forecast they document       *)
(* (property C11), over the exact numbers of Num.tla.                        *)
(*                                                                         *)
(* Configuration [kind, strategy, sp, w, y, fh, deg, icpt]:                  *)
(*   y     training series as integers at times 0..n-1, MISS = missing value *)
(*   w     window_length (0 = None: the whole training series)               *)
(*   fh    requested relative steps (<= 0: in-sample, one-step-ahead from    *)
(*         the observation before that time point)                           *)
(*   kind "naive": strategy in {"last","mean","drift"}, seasonal period sp   *)
(*   kind "poly" : least-squares polynomial of degree deg in time (zero at    *)
(*                 the first training point), with or without intercept       *)
(* Forecast(c) is the sequence of exact forecast values, one per step.        *)
(***************************************************************************)
EXTENDS Num

MISS == 99
N(c) == Len(c.y)
At(c, t) == c.y[t + 1]                               \* observation at time t (0-based)
W(c) == IF c.w = 0 THEN N(c) ELSE c.w
Present(c, ts) == SelectSeq(ts, LAMBDA t : At(c, t) # MISS)
TimesSeq(lo, hi) == [i \in 1..(IF hi >= lo THEN hi - lo + 1 ELSE 0) |-> lo + i - 1]
Vals(c, ts) == [i \in DOMAIN ts |-> Q(At(c, ts[i]))]

\* forecast made from cutoff cut (data up to cut) for the time point cut + h, h >= 1
NaiveFrom(c, cut, h) ==
    LET w == W(c)
        win == TimesSeq(cut - w + 1, cut) IN
    CASE c.strategy = "last" ->
           IF c.sp = 1 THEN Q(At(c, cut))
           ELSE Q(At(c, cut - c.sp + ((h - 1) % c.sp) + 1))      \* last value of the same season
      [] c.strategy = "mean" ->
           IF c.sp = 1 THEN MeanN(Vals(c, Present(c, win)))
           ELSE \* mean of the window's observations in the season of cut + h; seasons are aligned
                \* with the END of the window whatever its length
                MeanN(Vals(c, Present(c, SelectSeq(win, LAMBDA t : (cut + h - t) % c.sp = 0))))
      [] c.strategy = "drift" ->
           LET first == Q(At(c, cut - w + 1)) last == Q(At(c, cut)) IN
           Add(last, Mul(Q(h), Div(Sub(last, first), Q(w - 1))))    \* line through the window's end points
NaiveForecast(c) ==
    LET cut == N(c) - 1 IN
    [i \in DOMAIN c.fh |->
        IF c.fh[i] >= 1 THEN NaiveFrom(c, cut, c.fh[i])
        ELSE NaiveFrom(c, cut + c.fh[i] - 1, 1)]      \* in-sample: one step ahead from the point before

\* ---- least squares polynomial, Cramer's rule on the normal equations -----
RECURSIVE IPow(_, _)
IPow(t, k) == IF k = 0 THEN 1 ELSE t * IPow(t, k - 1)
S(c, k) == SumI([t \in 1..N(c) |-> IPow(t - 1, k)])                    \* sum of t^k over training times
T(c, k) == SumI([t \in 1..N(c) |-> IPow(t - 1, k) * c.y[t]])           \* sum of t^k * y_t
Det2(a, b, cc, d) == a * d - b * cc
Det3(m) == m[1][1] * Det2(m[2][2], m[2][3], m[3][2], m[3][3])
         - m[1][2] * Det2(m[2][1], m[2][3], m[3][1], m[3][3])
         + m[1][3] * Det2(m[2][1], m[2][2], m[3][1], m[3][2])
\* exponents used: with intercept 0..deg, without 1..deg
Exps(c) == IF c.icpt THEN [i \in 1..(c.deg + 1) |-> i - 1] ELSE [i \in 1..c.deg |-> i]
\* coefficients a_j for exponents Exps(c)[j], solving sum_j a_j S(e_i + e_j) = T(e_i)
Coef(c) ==
    LET e == Exps(c) k == Len(e) IN
    IF k = 1 THEN << Frac(T(c, e[1]), S(c, 2 * e[1])) >>
    ELSE IF k = 2 THEN
        LET a == S(c, e[1] + e[1]) b == S(c, e[1] + e[2]) d == S(c, e[2] + e[2])
            r1 == T(c, e[1]) r2 == T(c, e[2]) det == Det2(a, b, b, d) IN
        << Frac(Det2(r1, b, r2, d), det), Frac(Det2(a, r1, b, r2), det) >>
    ELSE
        LET M == [i \in 1..3 |-> [j \in 1..3 |-> S(c, e[i] + e[j])]]
            R == [i \in 1..3 |-> T(c, e[i])]
            Rep(col) == [i \in 1..3 |-> [j \in 1..3 |-> IF j = col THEN R[i] ELSE M[i][j]]]
            det == Det3(M) IN
        << Frac(Det3(Rep(1)), det), Frac(Det3(Rep(2)), det), Frac(Det3(Rep(3)), det) >>
PolyAt(c, t) ==
    LET e == Exps(c) a == Coef(c) IN SumN([j \in DOMAIN e |-> Mul(a[j], Q(IPow(t, e[j])))])
PolyForecast(c) == [i \in DOMAIN c.fh |-> PolyAt(c, N(c) - 1 + c.fh[i])]

Forecast(c) == IF c.kind = "naive" THEN NaiveForecast(c) ELSE PolyForecast(c)
Index(c) == [i \in DOMAIN c.fh |-> N(c) - 1 + c.fh[i]]

\* ---- textbook characterisations checked on the definition itself ---------
\* least squares: residuals on the training points are orthogonal to every basis function
Residual(c, t) == Sub(Q(At(c, t)), PolyAt(c, t))
Orthogonal(c) ==
    \A j \in DOMAIN Exps(c) :
        IsZero(SumN([t \in 1..N(c) |-> Mul(Q(IPow(t - 1, Exps(c)[j])), Residual(c, t - 1))]))
=============================================================================
