------------------------------- MODULE Purity -------------------------------
(***************************************************************************)
(* Applying an estimator is pure and reproducible (property C12, first      *)
(* half).  Abstract state of one scenario:                                  *)
(*   est    fingerprint of the fitted estimator's public state (0: unfitted) *)
(*   data   fingerprint of the CALLER's data object                          *)
(*   res    last result fingerprint per apply-type method (0: not yet)       *)
(* Fingerprints are 30-bit integers computed by the harness from canonical   *)
(* serialisations.  Calls: Fit (must stutter on data), Apply(m) on the       *)
(* fitted object, on a pickled-and-restored copy ("pickle"), on a twin built  *)
(* with equal parameters and fitted on equal data ("twin"), and on a twin     *)
(* fitted/applied with another n_jobs ("jobs").  Every Apply must stutter on  *)
(* est and data and return the result remembered for m.                       *)
(***************************************************************************)
EXTENDS Integers, Sequences, FiniteSets, TLC

CONSTANT Methods
VARIABLES est, data, res
pvars == <<est, data, res>>

PInit(d) == est = 0 /\ data = d /\ res = [m \in Methods |-> 0]
\* e: observed event [op, m, efp, dfp, rfp]
FitOk(e) == e.dfp = data                                     \* fitting never modifies the caller's data
Fit(e) == /\ FitOk(e) /\ est' = e.efp /\ UNCHANGED <<data, res>>
SameResult(e) == res[e.m] = 0 \/ e.rfp = res[e.m]            \* same call, same result
ApplyOk(e) == /\ est # 0
              /\ e.dfp = data                                \* apply never modifies the caller's data
              /\ (e.op = "apply" => e.efp = est)             \* ... nor the estimator
              /\ SameResult(e)
Apply(e) == /\ ApplyOk(e) /\ res' = [res EXCEPT ![e.m] = e.rfp] /\ UNCHANGED <<est, data>>
PClause(e) ==
    IF e.op = "fit" THEN "FitLeavesCallerDataUnchanged"
    ELSE IF e.dfp # data THEN "ApplyLeavesCallerDataUnchanged"
    ELSE IF e.op = "apply" /\ e.efp # est THEN "ApplyLeavesEstimatorUnchanged"
    ELSE CASE e.op = "apply" -> "SameCallSameResult"
           [] e.op = "pickle" -> "PickledCopyEqualResult"
           [] e.op = "twin" -> "EqualParamsEqualDataEqualResult"
           [] e.op = "jobs" -> "ResultIndependentOfNJobs"
           [] OTHER -> "UnknownOperation"
=============================================================================
