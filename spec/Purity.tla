------------------------------- MODULE Purity -------------------------------
(***************************************************************************)
(* Applying an estimator is pure and reproducible (property C12, first      *)
(* half).  Abstract state of one scenario:                                  *)
(*   est    fingerprint of the fitted estimator's public state (0: unfitted) *)
(*   data   fingerprint of the CALLER's data object                          *)
(*   res    last result fingerprint per apply-type method (0: not yet)       *)
(* Fingerprints are 30-bit integers computed by the harness from canonical   *)
(* serialisations.  Calls: Fit (must stutter on data), Apply(m) on the       *)
(* fitted object, on a pickled-and-restored copy ("pickle"), on a twin built  *)
(* with equal parameters and fitted on equal data ("twin"), and on a twin     *)
(* fitted/applied with another n_jobs ("jobs").  Every Apply must stutter on  *)
(* est and data and return the result remembered for m.  Fit2: the same object  *)
(* is fitted AGAIN, on other data (a new caller object with fingerprint e.d2):    *)
(* what it returns from then on is what a fresh estimator with equal parameters   *)
(* fitted on that data alone returns ("fresh") -- nothing of the first fit        *)
(* survives.                                                                      *)
(***************************************************************************)
EXTENDS Integers, Sequences, FiniteSets, TLC

CONSTANT Methods
VARIABLES est, data, res
pvars == <<est, data, res>>

PInit(d) == est = 0 /\ data = d /\ res = [m \in Methods |-> 0]
\* e: observed event [op, m, efp, dfp, rfp]
FitOk(e) == e.dfp = data                                     \* fitting never modifies the caller's data
Fit(e) == /\ FitOk(e) /\ est' = e.efp /\ UNCHANGED <<data, res>>
SameResult(e) == res[e.m] = 0 \/ e.rfp = res[e.m]            \* same call, same result
ApplyOk(e) == /\ est # 0
              /\ e.dfp = data                                \* apply never modifies the caller's data
              /\ (e.op = "apply" => e.efp = est)             \* ... nor the estimator
              /\ SameResult(e)
Apply(e) == /\ ApplyOk(e) /\ res' = [res EXCEPT ![e.m] = e.rfp] /\ UNCHANGED <<est, data>>
Fit2(e) == /\ est # 0 /\ e.dfp = e.d2                        \* the second fit does not modify its data either
           /\ est' = e.efp /\ data' = e.d2 /\ res' = [m \in Methods |-> 0]
PClause(e) ==
    IF e.op \in {"fit", "fit2"} THEN "FitLeavesCallerDataUnchanged"
    ELSE IF e.dfp # data THEN "ApplyLeavesCallerDataUnchanged"
    ELSE IF e.op = "apply" /\ e.efp # est THEN "ApplyLeavesEstimatorUnchanged"
    ELSE CASE e.op = "apply" -> "SameCallSameResult"
           [] e.op = "pickle" -> "PickledCopyEqualResult"
           [] e.op = "twin" -> "EqualParamsEqualDataEqualResult"
           [] e.op = "jobs" -> "ResultIndependentOfNJobs"
           [] e.op = "fresh" -> "RefittedEqualsFreshlyFitted"
           [] OTHER -> "UnknownOperation"
=============================================================================
