----------------------------- MODULE MCMetrics -----------------------------
(* Bounded model of Metrics.tla: every metric x option x small integer data. *)
(* The laws of C06 are invariants; every completed configuration can be       *)
(* emitted with its admissible values for replay into the real functions.     *)
EXTENDS Metrics, TLC, Json

CONSTANTS MaxLen, EmitVectors, EmitMod
Vals == {-2, 0, 1, 3}                 \* includes zero and a sign change
Trains == { <<1, 3, 2, 5>>, <<2, 2, 2, 2>>, <<0, 1, -2, 1, 3>>, <<4, 1, 1, 6, 0>> }
VARIABLES stage, cfg
vars == <<stage, cfg>>

Simple == {"mean_absolute_error", "mean_squared_error", "median_absolute_error", "median_squared_error"}
Pct == {"mean_absolute_percentage_error", "median_absolute_percentage_error",
        "mean_squared_percentage_error", "median_squared_percentage_error"}
Scaled == {"mean_absolute_scaled_error", "median_absolute_scaled_error",
           "mean_squared_scaled_error", "median_squared_scaled_error"}
Rel == {"mean_relative_absolute_error", "median_relative_absolute_error",
        "geometric_mean_relative_absolute_error", "geometric_mean_relative_squared_error"}
AllMetrics == Simple \cup Pct \cup Scaled \cup Rel \cup {"mean_asymmetric_error", "relative_loss"}
HasSqrt(m) == m \in {"mean_squared_error", "median_squared_error", "mean_squared_percentage_error",
                     "median_squared_percentage_error", "mean_squared_scaled_error",
                     "median_squared_scaled_error", "geometric_mean_relative_squared_error"}
IsMedian(m) == m \in {"median_absolute_error", "median_squared_error", "median_absolute_percentage_error",
                      "median_squared_percentage_error", "median_absolute_scaled_error",
                      "median_squared_scaled_error", "median_relative_absolute_error"}

BlankCol == [yt |-> << >>, yp |-> << >>, ytr |-> <<1, 3, 2, 5>>, yb |-> << >>]
Blank == [metric |-> "", cols |-> <<BlankCol>>, hw |-> << >>, mo |-> "raw", mow |-> << >>, sym |-> TRUE,
          sqrt |-> FALSE, sp |-> 1, thr |-> 0, lf |-> "squared", rf |-> "absolute", rlf |-> "mae"]
Init == stage = "metric" /\ cfg = Blank

PickMetric == /\ stage = "metric"
              /\ \E m \in AllMetrics : cfg' = [cfg EXCEPT !.metric = m]
              /\ stage' = "opts"
PickOpts ==
    /\ stage = "opts"
    /\ \E sym \in BOOLEAN, sq \in BOOLEAN, sp \in 1..2, thr \in {0, 1, 2}, lf \in {"squared", "absolute"},
          rlf \in {"mae", "mse", "mdae", "masym"} :
          /\ (cfg.metric \notin Pct => sym)
          /\ (~HasSqrt(cfg.metric) => ~sq)
          /\ (cfg.metric \notin Scaled => sp = 1)
          /\ (cfg.metric # "mean_asymmetric_error" => (thr = 0 /\ lf = "squared"))
          /\ (cfg.metric # "relative_loss" => rlf = "mae")
          /\ cfg' = [cfg EXCEPT !.sym = sym, !.sqrt = sq, !.sp = sp, !.thr = thr, !.lf = lf,
                                !.rf = (IF lf = "squared" THEN "absolute" ELSE "squared"), !.rlf = rlf]
    /\ stage' = "yt"
Col == cfg.cols[1]
PickYt == /\ stage = "yt"
          /\ \/ /\ Len(Col.yt) < MaxLen
                /\ \E v \in Vals : cfg' = [cfg EXCEPT !.cols[1].yt = Append(@, v)]
                /\ stage' = "yt"
             \/ /\ Len(Col.yt) > 0 /\ cfg' = cfg /\ stage' = "yp"
PickYp == /\ stage = "yp"
          /\ IF Len(Col.yp) < Len(Col.yt)
             THEN (\E v \in Vals : cfg' = [cfg EXCEPT !.cols[1].yp = Append(@, v)]) /\ stage' = "yp"
             ELSE cfg' = cfg /\ stage' = "extra"
PickExtra ==
    /\ stage = "extra"
    /\ IF cfg.metric \in Scaled
       THEN \E tr \in Trains : cfg' = [cfg EXCEPT !.cols[1].ytr = tr]
       ELSE IF cfg.metric \in Rel \cup {"relative_loss"}
       THEN \E b \in [1..Len(Col.yt) -> {-2, 1, 3}] : cfg' = [cfg EXCEPT !.cols[1].yb = b]
       ELSE cfg' = cfg
    /\ stage' = "weights"
\* horizon weights and a second output column (a shifted copy) with multioutput aggregation
PickWeights ==
    /\ stage = "weights"
    /\ \E hwk \in {"none", "ramp", "flat2"}, mo \in {"raw", "raw2", "uniform", "weights"} :
          LET n == Len(Col.yt)
              hw == CASE hwk = "none" -> << >> [] hwk = "ramp" -> [i \in 1..n |-> i] [] OTHER -> [i \in 1..n |-> 2]
              aggOk == ~cfg.sqrt /\ ~(IsMedian(cfg.metric) /\ hwk # "none")
                       /\ cfg.metric \notin Scaled \cup {"relative_loss", "geometric_mean_relative_absolute_error",
                                                         "geometric_mean_relative_squared_error"}
              col2 == [Col EXCEPT !.yt = [i \in 1..n |-> Col.yp[i]], !.yp = [i \in 1..n |-> Col.yt[n + 1 - i]]]
          IN /\ (mo \in {"uniform", "weights"} => aggOk)
             /\ cfg' = [cfg EXCEPT !.hw = hw,
                                   !.mo = (IF mo = "raw2" THEN "raw" ELSE mo),
                                   !.mow = (IF mo = "weights" THEN <<1, 3>> ELSE << >>),
                                   !.cols = (IF mo = "raw" THEN <<Col>> ELSE <<Col, col2>>)]
    /\ stage' = "done"
Next == PickMetric \/ PickOpts \/ PickYt \/ PickYp \/ PickExtra \/ PickWeights
Spec == Init /\ [][Next]_vars

Done == stage = "done"
Res == Result(cfg)
AllVals == IF Res.kind = "raw" THEN UNION {Res.cols[j] : j \in DOMAIN Res.cols} ELSE {Res.val}

\* ---- laws (C06) -------------------------------------------------------
Inv_NonNegative == Done => \A v \in AllVals : Sgn(v) >= 0
Inv_SomeValue == Done => (Res.kind = "raw" => \A j \in DOMAIN Res.cols : Res.cols[j] # {})
Perfect(c) == [c EXCEPT !.cols = [j \in DOMAIN c.cols |-> [c.cols[j] EXCEPT !.yp = c.cols[j].yt]]]
\* zero for a perfect forecast; geometric means return their documented floor (a power of EPS)
Inv_ZeroForPerfect ==
    Done => LET r == Result(Perfect(cfg))
                vs == IF r.kind = "raw" THEN UNION {r.cols[j] : j \in DOMAIN r.cols} ELSE {r.val} IN
            \A v \in vs : IF IsGeometric(cfg) THEN (v[1] = 1 /\ v[2] = 1 /\ v[3] >= 1) ELSE IsZero(v)
Swapped(c) == [c EXCEPT !.cols = [j \in DOMAIN c.cols |-> [c.cols[j] EXCEPT !.yt = c.cols[j].yp, !.yp = c.cols[j].yt]]]
\* symmetric percentage errors: invariant under swapping truth and forecast, within [0, 2]
\* (squared variants: within [0, 4]); values are reported through Power(cfg)
Inv_SymmetricSwap == (Done /\ cfg.metric \in Pct /\ cfg.sym) => Result(Swapped(cfg)) = Res
Inv_SymmetricRange ==
    (Done /\ cfg.metric \in Pct /\ cfg.sym) =>
        \A v \in AllVals : Le(v, Q(IF cfg.metric \in {"mean_squared_percentage_error",
                                                       "median_squared_percentage_error"} THEN 4 ELSE 2))
Scale(c, f) == [c EXCEPT !.cols = [j \in DOMAIN c.cols |->
                  [yt |-> [i \in DOMAIN c.cols[j].yt |-> f * c.cols[j].yt[i]],
                   yp |-> [i \in DOMAIN c.cols[j].yp |-> f * c.cols[j].yp[i]],
                   ytr |-> [i \in DOMAIN c.cols[j].ytr |-> f * c.cols[j].ytr[i]],
                   yb |-> [i \in DOMAIN c.cols[j].yb |-> f * c.cols[j].yb[i]]]]]
\* scaled errors are invariant to rescaling all series by a positive constant (unless the
\* naive error is exactly zero, where the documented EPS clamp takes over)
Inv_ScaleInvariance ==
    (Done /\ cfg.metric \in Scaled) =>
        \A f \in {2, 3} :
            (\A v \in AllVals : v[3] = 0) => Result(Scale(cfg, f)) = Res
Thin == (3 * SumI(cfg.cols[1].yt) + 5 * SumI(cfg.cols[1].yp) + Len(cfg.hw) + Len(cfg.cols) + 1000) % EmitMod = 0
Emit == (Done /\ EmitVectors /\ Thin) =>
    PrintT(ToJson([cfg |-> cfg, pow |-> Power(cfg),
                   res |-> IF Res.kind = "raw"
                           THEN [kind |-> "raw", cols |-> [j \in DOMAIN Res.cols |-> Res.cols[j]], val |-> Zero]
                           ELSE [kind |-> "agg", cols |-> << >>, val |-> Res.val]]))
=============================================================================
