---------------------------- MODULE MCSplitters ----------------------------
(* Exhaustive bounded model of Splitters.tla: one state per configuration.  *)
(* The state graph is built field by field so that TLC's workers share the  *)
(* enumeration; a configuration is complete when stage = "done", and the     *)
(* invariants are the clauses of property C01 on the specified outcome.      *)
EXTENDS Splitters, Json

CONSTANTS MaxN, MaxFh, MaxFhLen, MaxW, MaxS, MaxIW, MaxCuts, EmitVectors

VARIABLES stage, cfg
vars == <<stage, cfg>>

FhSets == { SetToSortSeq(S, <) : S \in { T \in SUBSET (1..MaxFh) : T # {} /\ Cardinality(T) <= MaxFhLen } }
CutSets(n) == UNION { { q \in [1..k -> 0..n] : \A i, j \in 1..k : i # j => q[i] # q[j] } : k \in 1..MaxCuts }   \* every ORDER of every selection
Sizes(n) == {<<"none", 0>>} \cup { <<"int", k>> : k \in 0..n } \cup { <<"frac", k>> : k \in 1..7 }

Blank == [kind |-> "", n |-> 0, fh |-> <<1>>, wl |-> 0, sl |-> 1, iw |-> 0, sww |-> TRUE,
          cuts |-> <<0>>, ts |-> <<"none", 0>>, tr |-> <<"none", 0>>]

Init == stage = "kind" /\ cfg = Blank

PickKind == /\ stage = "kind"
            /\ \E k \in {"sliding", "expanding", "single", "cutoff", "tts_size", "tts_fh"} :
                   cfg' = [cfg EXCEPT !.kind = k]
            /\ stage' = "n"
PickN == /\ stage = "n"
         /\ \E n \in 1..MaxN : cfg' = [cfg EXCEPT !.n = n]
         /\ stage' = "fh"
PickFh == /\ stage = "fh"
          /\ IF cfg.kind = "tts_size"
             THEN cfg' = cfg
             ELSE \E f \in FhSets : /\ (cfg.kind = "tts_fh" => LastOf(f) < cfg.n)
                                    /\ (cfg.kind = "single" => LastOf(f) <= cfg.n)
                                    /\ cfg' = [cfg EXCEPT !.fh = f]
          /\ stage' = "win"
PickWin == /\ stage = "win"
           /\ CASE cfg.kind \in {"sliding"} ->
                     \E w \in 1..MaxW, s \in 1..MaxS, i \in {0} \cup 2..MaxIW, b \in BOOLEAN :
                         cfg' = [cfg EXCEPT !.wl = w, !.sl = s, !.iw = i, !.sww = b]
                [] cfg.kind = "expanding" ->
                     \E w \in 1..MaxW, s \in 1..MaxS, b \in BOOLEAN :
                         cfg' = [cfg EXCEPT !.wl = w, !.sl = s, !.sww = b]
                [] cfg.kind = "single" ->
                     \E w \in 0..MaxW : cfg' = [cfg EXCEPT !.wl = w]
                [] cfg.kind = "cutoff" ->
                     \E w \in 1..MaxW, cs \in CutSets(cfg.n) : cfg' = [cfg EXCEPT !.wl = w, !.cuts = cs]
                [] cfg.kind = "tts_size" ->
                     \E a \in Sizes(cfg.n), b \in Sizes(cfg.n) : cfg' = [cfg EXCEPT !.ts = a, !.tr = b]
                [] cfg.kind = "tts_fh" -> cfg' = cfg
           /\ stage' = "done"
Next == PickKind \/ PickN \/ PickFh \/ PickWin
Spec == Init /\ [][Next]_vars

Done == stage = "done"
Out == Outcome(cfg)

Inv_TrainContiguousEndsAtCutoff == Done => TrainContiguousEndsAtCutoff(cfg, Out)
Inv_TestIsCutoffPlusFh          == Done => TestIsCutoffPlusFh(cfg, Out)
Inv_InsideSeries                == Done => InsideSeries(cfg, Out)
Inv_NoLeak                      == Done => NoLeak(cfg, Out)
Inv_CutoffsAdvanceByStep        == Done => CutoffsAdvanceByStep(cfg, Out)
Inv_FirstAndLastFeasible        == Done => FirstAndLastFeasible(cfg, Out)
Inv_SlidingHasRequestedLength   == Done => SlidingHasRequestedLength(cfg, Out)
Inv_ExpandingStartsAtZero       == Done => ExpandingStartsAtZero(cfg, Out)
Inv_ReportedEqualsYielded       == Done => ReportedEqualsYielded(cfg, Out)
Inv_TtsPartition                == Done => TtsPartition(cfg, Out)
\* a rejected configuration really is infeasible: no cutoff on the grid has its window and
\* horizon inside the series (otherwise the spec would reject more than the documentation)
Inv_RejectOnlyInfeasible ==
    (Done /\ cfg.kind \in {"sliding", "expanding"} /\ cfg.iw = NONE /\ Out.rej)
        => cfg.wl + LastOf(cfg.fh) > cfg.n
\* vacuity witnesses: both accepted and rejected outcomes, multi-split outcomes exist
Emit == (Done /\ EmitVectors) => PrintT(ToJson([cfg |-> cfg, out |-> Out]))
=============================================================================
