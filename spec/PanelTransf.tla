----------------------------- MODULE PanelTransf -----------------------------
(***************************************************************************)
(* Closed-form transformers compute exactly the function they document      *)
(* (property C14), over the exact numbers of Num.tla.                        *)
(*                                                                         *)
(* A panel is a sequence of instances, an instance a sequence of columns,    *)
(* a column (cell) a sequence of integers; MISS marks a missing value in a    *)
(* single series.  A case is [op, p, X] with parameters p (a record) and X    *)
(* the panel; Out(c) is the output panel as sequences of exact numbers        *)
(* <<n, d>> : one row per instance in input order, cells in column order.     *)
(***************************************************************************)
EXTENDS Num

MISS == 99
R(v) == LET x == Q(v) IN <<x[1], x[2]>>
P2(x) == <<x[1], x[2]>>                                    \* drop the (zero) EPS exponent
Cell(ints) == [i \in DOMAIN ints |-> R(ints[i])]
RECURSIVE CatAll(_)
CatAll(ss) == IF Len(ss) = 0 THEN << >> ELSE Head(ss) \o CatAll(Tail(ss))
MaxLen(X) == CHOOSE m \in {Len(X[i][j]) : i \in DOMAIN X, j \in DOMAIN X[1]} :
                 \A i \in DOMAIN X, j \in DOMAIN X[1] : Len(X[i][j]) <= m
MinLen(X) == CHOOSE m \in {Len(X[i][j]) : i \in DOMAIN X, j \in DOMAIN X[1]} :
                 \A i \in DOMAIN X, j \in DOMAIN X[1] : Len(X[i][j]) >= m
MapCells(X, F(_)) == [i \in DOMAIN X |-> [j \in DOMAIN X[i] |-> F(X[i][j])]]

\* --- padding to the requested (0 = longest) length with the fill value ------
\* (half = 1: the fill value is fill + 1/2 -- a fractional fill value also for panels of integer cells)
PadCell(s, L, fill) == [k \in 1..L |-> IF k <= Len(s) THEN R(s[k]) ELSE R(fill)]
PadCellH(s, L, fill, half) ==
    [k \in 1..L |-> IF k <= Len(s) THEN R(s[k]) ELSE IF half = 1 THEN P2(Add(Q(fill), Frac(1, 2))) ELSE R(fill)]
\* Lengths learned in fit: p.fit = 0 means the transformer was fitted on the very panel it transforms; otherwise it was
\* fitted on another panel whose longest (padding) / shortest (truncation) series has length p.fit, and that
\* fitted length -- not the transformed panel's -- is what a missing pad_length / lower bound stands for
FitMax(X, p) == IF p.fit = 0 THEN MaxLen(X) ELSE p.fit
FitMin(X, p) == IF p.fit = 0 THEN MinLen(X) ELSE p.fit
\* --- truncation to [lo, hi) (hi = 0: to the shortest length lo = 0 -> MinLen) --
TruncCell(s, lo, hi) == [k \in 1..(hi - lo) |-> R(s[lo + k])]
\* --- linear interpolation to L points on an equally spaced grid ----------------
InterpCell(s, L) ==
    LET n == Len(s) IN
    [k \in 1..L |->
        IF L = 1 \/ n = 1 THEN R(s[1])
        ELSE LET num == (k - 1) * (n - 1)              \* position = num / (L-1), 0-based
                 lo == num \div (L - 1)
                 fr == Frac(num - lo * (L - 1), L - 1)
             IN IF lo + 1 >= n THEN R(s[n])
                ELSE P2(Add(Q(s[lo + 1]), Mul(fr, Q(s[lo + 2] - s[lo + 1]))))]
\* --- piecewise aggregate approximation: k equal, possibly fractional frames -----
\* overlap of [a, a+1) with frame [f*n/k, (f+1)*n/k), as a number (all scaled by k)
Overlap(t, f, n, k) ==
    LET lo == IF t * k > f * n THEN t * k ELSE f * n
        hi == IF (t + 1) * k < (f + 1) * n THEN (t + 1) * k ELSE (f + 1) * n
    IN IF hi > lo THEN Frac(hi - lo, k) ELSE Zero
PaaCell(s, k) ==
    LET n == Len(s) IN
    [f \in 1..k |-> P2(Div(SumN([t \in 1..n |-> Mul(Overlap(t - 1, f - 1, n, k), Q(s[t]))]), Frac(n, k)))]
\* --- fixed intervals: split 0..n-1 into k consecutive runs, the first n mod k one longer
IntervalBounds(n, k) ==
    LET q == n \div k r == n % k IN
    [f \in 1..k |-> LET start == (f - 1) * q + (IF f - 1 < r THEN f - 1 ELSE r)
                        size == q + (IF f <= r THEN 1 ELSE 0)
                    IN <<start, start + size>>]                      \* [start, end)
Slice(s, a, b) == [k \in 1..(b - a) |-> s[a + k]]
\* --- sliding windows of length w centred on every time point, edges padded with the end values
Padded(s, p) == [k \in 1..(Len(s) + 2 * p) |-> IF k <= p THEN s[1] ELSE IF k > p + Len(s) THEN s[Len(s)] ELSE s[k - p]]
\* --- summary features of an interval [a, b) ------------------------------------------
MeanOf(s) == MeanN([i \in DOMAIN s |-> Q(s[i])])
VarOf(s) == LET m == MeanOf(s) IN MeanN([i \in DOMAIN s |-> Sq(Sub(Q(s[i]), m))])     \* std squared
SlopeOf(s) ==                                                       \* least-squares slope against 0,1,2,...
    LET n == Len(s)
        tb == Frac(n - 1, 2)
        yb == MeanOf(s)
        num == SumN([i \in 1..n |-> Mul(Sub(Q(i - 1), tb), Sub(Q(s[i]), yb))])
        den == SumN([i \in 1..n |-> Sq(Sub(Q(i - 1), tb))])
    IN IF n < 2 THEN Zero ELSE Div(num, den)
\* --- imputation of one series (MISS = missing) ----------------------------------------
Pres(s) == {i \in DOMAIN s : s[i] # MISS}
PrevP(s, i) == CHOOSE j \in Pres(s) : j < i /\ \A k \in Pres(s) : k < i => k <= j
NextP(s, i) == CHOOSE j \in Pres(s) : j > i /\ \A k \in Pres(s) : k > i => k >= j
HasPrev(s, i) == \E j \in Pres(s) : j < i
HasNext(s, i) == \E j \in Pres(s) : j > i
Ffill(s) == [i \in DOMAIN s |-> IF s[i] # MISS THEN s[i] ELSE IF HasPrev(s, i) THEN s[PrevP(s, i)] ELSE s[NextP(s, i)]]
Bfill(s) == [i \in DOMAIN s |-> IF s[i] # MISS THEN s[i] ELSE IF HasNext(s, i) THEN s[NextP(s, i)] ELSE s[PrevP(s, i)]]
PresSeq(s) == LET RECURSIVE Go(_) Go(i) == IF i > Len(s) THEN << >> ELSE (IF s[i] # MISS THEN <<Q(s[i])>> ELSE << >>) \o Go(i + 1) IN Go(1)
ImputeAt(s, i, method, const) ==
    CASE method \in {"ffill", "pad"} -> Q(Ffill(s)[i])
      [] method \in {"bfill", "backfill"} -> Q(Bfill(s)[i])
      [] method = "constant" -> Q(const)
      [] method = "mean" -> MeanN(PresSeq(s))
      [] method = "median" -> MedianN(PresSeq(s))
      [] method = "linear" ->                              \* straight line between the neighbouring observations
           IF HasPrev(s, i) /\ HasNext(s, i)
           THEN LET a == PrevP(s, i) b == NextP(s, i) IN
                Add(Q(s[a]), Mul(Frac(i - a, b - a), Q(s[b] - s[a])))
           ELSE IF HasPrev(s, i) THEN Q(s[PrevP(s, i)]) ELSE Q(s[NextP(s, i)])
      [] method = "drift" ->                               \* least-squares line through the ffill/bfill-ed series
           LET g == Bfill(Ffill(s)) n == Len(s)
               tb == Frac(n - 1, 2) yb == MeanOf(g)
               sl == SlopeOf(g)
           IN Add(yb, Mul(sl, Sub(Q(i - 1), tb)))
ImputeSeries(s, method, const) ==
    [i \in DOMAIN s |-> P2(IF s[i] # MISS THEN Q(s[i]) ELSE ImputeAt(s, i, method, const))]
\* --- autocorrelation coefficients 0..k: ratio of sums around the overall mean -----------
\* (adj = 1, option adjusted: the autocovariance at lag h is divided by n - h instead of n)
AcfSeries(s, k, adj) ==
    LET n == Len(s) m == MeanOf(s)
        c(h) == SumN([t \in 1..(n - h) |-> Mul(Sub(Q(s[t]), m), Sub(Q(s[t + h]), m))])
    IN [h \in 1..(k + 1) |-> P2(IF adj = 1 THEN Div(Mul(c(h - 1), Q(n)), Mul(c(0), Q(n - h + 1))) ELSE Div(c(h - 1), c(0)))]
\* --- min-max scaling of a single series (wrapped tabular transformer) -----------------
MinMaxSeries(s) ==
    LET lo == CHOOSE v \in {s[i] : i \in DOMAIN s} : \A i \in DOMAIN s : v <= s[i]
        hi == CHOOSE v \in {s[i] : i \in DOMAIN s} : \A i \in DOMAIN s : v >= s[i]
    IN [i \in DOMAIN s |-> P2(Frac(s[i] - lo, hi - lo))]

Out(c) ==
    LET X == c.X p == c.p IN
    CASE c.op = "pad" -> MapCells(X, LAMBDA s : PadCellH(s, IF p.L = 0 THEN FitMax(X, p) ELSE p.L, p.fill, p.half))
      [] c.op = "truncate" -> MapCells(X, LAMBDA s : IF p.hi = 0 THEN TruncCell(s, 0, IF p.lo = 0 THEN FitMin(X, p) ELSE p.lo)
                                                     ELSE TruncCell(s, p.lo, p.hi))
      [] c.op = "interpolate" -> MapCells(X, LAMBDA s : InterpCell(s, p.L))
      [] c.op = "tabularize" -> [i \in DOMAIN X |-> << CatAll([j \in DOMAIN X[i] |-> Cell(X[i][j])]) >>]   \* column, then time
      [] c.op = "concat" -> [i \in DOMAIN X |-> << CatAll([j \in DOMAIN X[i] |-> Cell(X[i][j])]) >>]
      [] c.op = "paa" -> MapCells(X, LAMBDA s : PaaCell(s, p.k))
      [] c.op = "intervals" ->
           [i \in DOMAIN X |-> LET b == IntervalBounds(Len(X[i][1]), p.k) IN
                               [f \in 1..p.k |-> Cell(Slice(X[i][1], b[f][1], b[f][2]))]]
      [] c.op = "sliding" ->
           [i \in DOMAIN X |-> LET s == X[i][1] pd == Padded(s, p.w \div 2) IN
                               [t \in 1..Len(s) |-> Cell([k \in 1..p.w |-> pd[t + k - 1]])]]
      [] c.op = "interval_features" ->                       \* p.iv: fitted intervals [a, b); mean.., std^2.., slope.., range..
           [i \in DOMAIN X |->
              << [f \in DOMAIN p.iv |-> P2(MeanOf(Slice(X[i][1], p.iv[f][1], p.iv[f][2])))]
                 \o [f \in DOMAIN p.iv |-> P2(VarOf(Slice(X[i][1], p.iv[f][1], p.iv[f][2])))]
                 \o [f \in DOMAIN p.iv |-> P2(SlopeOf(Slice(X[i][1], p.iv[f][1], p.iv[f][2])))]
                 \* a user-supplied feature function without an axis argument: the range (max - min) of the interval
                 \o [f \in DOMAIN p.iv |-> LET sl == Slice(X[i][1], p.iv[f][1], p.iv[f][2])
                                               hi == CHOOSE v \in {sl[t] : t \in DOMAIN sl} : \A t \in DOMAIN sl : sl[t] <= v
                                               lo == CHOOSE v \in {sl[t] : t \in DOMAIN sl} : \A t \in DOMAIN sl : sl[t] >= v
                                           IN R(hi - lo)] >>]
      [] c.op = "row_mean" -> MapCells(X, LAMBDA s : << P2(MeanOf(s)) >>)
      [] c.op = "impute" -> << << ImputeSeries(X[1][1], p.method, p.const) >> >>
      [] c.op = "acf" -> << << AcfSeries(X[1][1], p.k, p.adj) >> >>
      [] c.op = "minmax" -> << << MinMaxSeries(X[1][1]) >> >>

\* outputs keep one row per instance in input order; length-changing transformers give exactly the requested length
OneRowPerInstance(c, o) == Len(o) = Len(c.X)
ExactRequestedLength(c, o) ==
    CASE c.op = "pad" -> \A i \in DOMAIN o : \A j \in DOMAIN o[i] : Len(o[i][j]) = (IF c.p.L = 0 THEN FitMax(c.X, c.p) ELSE c.p.L)
      [] c.op = "interpolate" -> \A i \in DOMAIN o : \A j \in DOMAIN o[i] : Len(o[i][j]) = c.p.L
      [] c.op = "paa" -> \A i \in DOMAIN o : \A j \in DOMAIN o[i] : Len(o[i][j]) = c.p.k
      [] c.op = "truncate" -> \A i \in DOMAIN o : \A j \in DOMAIN o[i] :
                                 Len(o[i][j]) = (IF c.p.hi = 0 THEN (IF c.p.lo = 0 THEN FitMin(c.X, c.p) ELSE c.p.lo) ELSE c.p.hi - c.p.lo)
      [] c.op = "intervals" -> \A i \in DOMAIN o : Len(o[i]) = c.p.k
                                  /\ SumI([f \in DOMAIN o[i] |-> Len(o[i][f])]) = Len(c.X[i][1])   \* the intervals tile the series
      [] OTHER -> TRUE
=============================================================================
