----------------------------- MODULE MCPanelEstim -----------------------------
(* Input transformations for C16 (every permutation, every non-empty sub-selection, every single       *)
(* instance, all four container combinations) and vote tables for C17's aggregation rule.              *)
EXTENDS PanelEstim, TLC, Json, SequencesExt
CONSTANTS MaxInst, EmitVectors
VARIABLES stage, cfg
vars == <<stage, cfg>>
Init == stage = "n" /\ cfg = [n |-> 2, src |-> << >>, fitc |-> "nested", applyc |-> "nested"]
PickN == stage = "n" /\ (\E n \in 2..MaxInst : cfg' = [cfg EXCEPT !.n = n]) /\ stage' = "src"
Perms(n) == { p \in [1..n -> 1..n] : \A i, j \in 1..n : i # j => p[i] # p[j] }
Subs(n) == { SetToSortSeq(S, <) : S \in (SUBSET (1..n)) \ {{}} }
PickSrc == /\ stage = "src"
           /\ \E s \in Perms(cfg.n) \cup Subs(cfg.n), fc \in {"nested", "numpy3d"}, ac \in {"nested", "numpy3d"} :
                  cfg' = [cfg EXCEPT !.src = s, !.fitc = fc, !.applyc = ac]
           /\ stage' = "done"
Next == PickN \/ PickSrc
Spec == Init /\ [][Next]_vars
Done == stage = "done"
\* with an honest row map (row fingerprints 100+i) the property holds for every transformation
Honest == [rows |-> [k \in DOMAIN cfg.src |-> 100 + cfg.src[k]]]
Inv_RowMapSatisfiesProperty ==
    Done => RowwiseOk([n |-> cfg.n, src |-> cfg.src, fitc |-> cfg.fitc, applyc |-> cfg.applyc,
                       base |-> [i \in 1..cfg.n |-> 100 + i]], Honest)
Emit == (Done /\ EmitVectors) => PrintT(ToJson(cfg))
=============================================================================
