---------------------------- MODULE MCReduction ----------------------------
EXTENDS Reduction, SequencesExt, Json
CONSTANTS MaxN, MaxW, MaxFh, MaxFhLen, MaxNx, MaxUpd, EmitVectors
VARIABLES stage, cfg
vars == <<stage, cfg>>
FhSets == { SetToSortSeq(S, <) : S \in { T \in SUBSET (1..MaxFh) : T # {} /\ Cardinality(T) <= MaxFhLen } }
Init == stage = "strategy" /\ cfg = [strategy |-> "", n |-> 0, w |-> 1, fh |-> <<1>>, nx |-> 0, upd |-> 0, pre |-> 0]
PickStrategy == /\ stage = "strategy"
                /\ \E s \in {"direct", "recursive", "multioutput", "dirrec"} : cfg' = [cfg EXCEPT !.strategy = s]
                /\ stage' = "shape"
PickShape == /\ stage = "shape"
             /\ \E n \in 3..MaxN, w \in 1..MaxW : cfg' = [cfg EXCEPT !.n = n, !.w = w]
             /\ stage' = "fh"
PickFh == /\ stage = "fh"
          /\ \E f \in FhSets : cfg' = [cfg EXCEPT !.fh = f]
          /\ stage' = "extra"
PickExtra == /\ stage = "extra"
             \* pre: window length of an earlier fit of the same object (0: fresh object).  Expected() does not
             \* look at it: a fit discards whatever an earlier fit, with other parameters, left behind
             /\ \E x \in 0..MaxNx, u \in 0..MaxUpd, pw \in {0, (cfg.w % MaxW) + 1} :
                    /\ (cfg.strategy = "dirrec" => x = 0)          \* dirrec documents no exogenous support
                    /\ cfg' = [cfg EXCEPT !.nx = x, !.upd = u, !.pre = pw]
             /\ stage' = "done"
Next == PickStrategy \/ PickShape \/ PickFh \/ PickExtra
Spec == Init /\ [][Next]_vars
Done == stage = "done"
Exp == Expected(cfg)
Inv_WindowConsecutive      == (Done /\ ~Exp.rej) => WindowConsecutive(cfg, Exp)
Inv_TargetExactlyHAhead    == (Done /\ ~Exp.rej) => TargetExactlyHAhead(cfg, Exp)
Inv_AllFullWindowsOnce     == (Done /\ ~Exp.rej) => AllFullWindowsOnce(cfg, Exp)
Inv_NoFuture               == (Done /\ ~Exp.rej) => NoFuture(cfg, Exp)
Inv_PredictFromLastWindow  == (Done /\ ~Exp.rej) => PredictFromLastWindow(cfg, Exp)
Inv_ForecastIsOutputForStep == (Done /\ ~Exp.rej) => ForecastIsOutputForStep(cfg, Exp)
\* feedback: in the recursive / dirrec strategies every earlier prediction appears as newest lag
Inv_FeedbackNewestLag ==
    (Done /\ ~Exp.rej /\ cfg.strategy = "recursive") =>
        \A h \in 2..Len(Exp.preds) : Exp.preds[h][cfg.w] = P(h - 1, 0)
Inv_RejectOnlyWhenNoRow == (Done /\ Exp.rej) => NRows(cfg.n, cfg.w, FhMax(cfg)) <= 0
Emit == (Done /\ EmitVectors) => PrintT(ToJson([cfg |-> cfg, exp |-> Exp]))
=============================================================================
