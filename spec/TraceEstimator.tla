----------------------------- MODULE TraceEstimator -----------------------------
(* Validates recorded operation sequences: events [tid, i, op, name, obs]; op "static" carries the verdict of the   *)
(* constructor scan for one class.  The state is re-initialised at i = 1.                                          *)
EXTENDS Estimator, Json, IOUtils
Trace == ndJsonDeserialize(IOEnv.TRACE_FILE)
VARIABLES l, st
tvars == <<params, fitted, l, st>>
TInit == params = Fresh /\ fitted = FALSE /\ l = 1 /\ st = "reset"
Reset == st = "reset" /\ l <= Len(Trace) /\ params' = Fresh /\ fitted' = FALSE /\ st' = "run" /\ UNCHANGED l
NextSt(k) == IF k > Len(Trace) THEN "end" ELSE IF Trace[k].i = 1 THEN "reset" ELSE "run"
\* restriction of the expected parameter vector to the names the event tracks
SeesOwn(e, p) == \A n \in DOMAIN e.obs.params : n \in Names /\ e.obs.params[n] = p[n]
\* sibling isolation: events that carry a sibling observation (dynamic ones) are judged on it as well
SeesSib(e, p) == "sib" \in DOMAIN e.obs =>
                    /\ \A n \in DOMAIN e.obs.sib : n \in Names /\ e.obs.sib[n] = SibParams(p)[n]
                    /\ ~e.obs.sibfitted /\ e.obs.sibstate
\* get_params(deep=True) is the closure of get_params(deep=False) under <component>__<parameter>
DeepOk(e) == "deepok" \in DOMAIN e.obs => e.obs.deepok
Sees(e, p) == SeesOwn(e, p) /\ DeepOk(e) /\ (e.op \in {"clone", "clone_fitted"} \/ SeesSib(e, p))
Act(e) ==
    CASE e.op = "construct" -> UNCHANGED evars /\ Sees(e, params) /\ e.obs.rej = "" /\ ~e.obs.fitted
      [] e.op = "get" -> GetParams /\ Sees(e, params) /\ e.obs.rej = ""
      [] e.op = "set_same" -> SetSame /\ Sees(e, params) /\ e.obs.rej = "" /\ e.obs.self
      [] e.op = "set_alt" -> SetAlt(e.name) /\ Sees(e, params') /\ e.obs.rej = "" /\ e.obs.self
      [] e.op = "set_orig" -> SetOrig(e.name) /\ Sees(e, params') /\ e.obs.rej = "" /\ e.obs.self
      [] e.op = "set_unknown" -> SetUnknown /\ Sees(e, params) /\ e.obs.rej = "unknown"
      [] e.op = "clone" -> UNCHANGED evars /\ Sees(e, params) /\ e.obs.rej = "" /\ ~e.obs.fitted
      [] e.op = "apply_unfitted" -> UNCHANGED evars /\ e.obs.rej = "notfitted" /\ Sees(e, params)
      [] e.op = "fit" -> Fit /\ Sees(e, params) /\ e.obs.rej = "" /\ e.obs.fitted /\ e.obs.self
      [] e.op = "clone_fitted" -> UNCHANGED evars /\ Sees(e, params) /\ ~e.obs.fitted /\ e.obs.rej = "notfitted"
      [] e.op = "static" -> UNCHANGED evars /\ e.obs.rej = ""
Clause(e) ==
    CASE e.op = "construct" -> "GetReturnsPassed/FreshIsUnfitted"
      [] e.op \in {"get", "set_same", "set_alt", "set_orig"} -> "SetGetIdentity/NestedReadWrite"
      [] e.op = "set_unknown" -> "UnknownRejected"
      [] e.op = "clone" -> "CloneEqualParamsUnfitted"
      [] e.op = "apply_unfitted" -> "ApplyBeforeFitRaisesNotFitted"
      [] e.op = "fit" -> "FitReturnsSelfKeepsParams"
      [] e.op = "clone_fitted" -> "CloneOfFittedIsUnfitted"
      [] e.op = "static" -> "ConstructorStoresEveryArgument"
Step == /\ st = "run" /\ l <= Len(Trace)
        /\ LET e == Trace[l] IN
             \/ /\ Act(e) /\ l' = l + 1 /\ st' = NextSt(l + 1)
             \/ /\ ~ENABLED Act(e)
                /\ PrintT(<<"REJECT", e.tid, Clause(e)>>)
                /\ UNCHANGED evars /\ l' = l + 1 /\ st' = "skip"
Skip == /\ st = "skip"
        /\ IF l > Len(Trace) THEN st' = "end" /\ l' = l
           ELSE IF Trace[l].i = 1 THEN st' = "reset" /\ l' = l ELSE st' = "skip" /\ l' = l + 1
        /\ UNCHANGED evars
End == st = "end" /\ PrintT(<<"DONE", Len(Trace)>>) /\ st' = "finished" /\ UNCHANGED <<params, fitted, l>>
TNext == Reset \/ Step \/ Skip \/ End
TSpec == TInit /\ [][TNext]_tvars
=============================================================================
