----------------------------- MODULE Splitters -----------------------------
(***************************************************************************)
(* Temporal cross-validation splitters of sktime 0.6.0 (property C01;      *)
(* reused by Evaluate / Tune for C07, C08, C10).                            *)
(*                                                                         *)
(* Written from the class docstrings and the property statement, not from  *)
(* the code: a splitter is characterised by its sequence of CUTOFFS (the   *)
(* position of the last training observation of each split), the training  *)
(* window that ends at each cutoff and the test positions cutoff + fh.     *)
(*                                                                         *)
(* Positions are 0-based integers 0..n-1.  A configuration is a record     *)
(*   kind  \in {"sliding","expanding","single","cutoff","tts_size",        *)
(*              "tts_fh"}                                                  *)
(*   n     series length                                                   *)
(*   fh    strictly increasing sequence of positive steps                  *)
(*   wl    window_length (0 = None, only for "single")                     *)
(*   sl    step_length                                                     *)
(*   iw    initial_window (0 = None)                                       *)
(*   sww   start_with_window                                               *)
(*   cuts  sequence of cutoffs (kind "cutoff")                             *)
(*   ts,tr test_size / train_size: <<"none",0>>, <<"int",k>>,              *)
(*         <<"frac",k>> meaning k/8  (kind "tts_size")                     *)
(* An outcome is [rej, splits, cutoffs, nsplits]; splits is a sequence of  *)
(* [train |-> Seq(Int), test |-> Seq(Int)].                                *)
(***************************************************************************)
EXTENDS Integers, Sequences, FiniteSets, TLC, SequencesExt

NONE == 0

Max2(a, b) == IF a > b THEN a ELSE b
Min2(a, b) == IF a < b THEN a ELSE b
LastOf(s) == s[Len(s)]

\* the sequence lo, lo+1, ..., hi (empty when hi < lo)
Run(lo, hi) == [i \in 1..(IF hi >= lo THEN hi - lo + 1 ELSE 0) |-> lo + i - 1]
\* first, first+sl, ... not exceeding last
Grid(first, last, sl) ==
    [i \in 1..(IF last >= first THEN (last - first) \div sl + 1 ELSE 0) |-> first + (i - 1) * sl]
Shift(c, fh) == [i \in 1..Len(fh) |-> c + fh[i]]
SeqMax(s) == CHOOSE x \in {s[i] : i \in DOMAIN s} : \A j \in DOMAIN s : s[j] <= x

Rejected == [rej |-> TRUE, splits |-> << >>, cutoffs |-> << >>, nsplits |-> 0]
Accepted(splits, cutoffs) ==
    [rej |-> FALSE, splits |-> splits, cutoffs |-> cutoffs, nsplits |-> Len(splits)]

-----------------------------------------------------------------------------
(* Sliding / expanding windows.                                            *)
WindowReject(c) ==
    \/ c.wl + LastOf(c.fh) > c.n                       \* window + horizon do not fit
    \/ /\ c.iw # NONE
       /\ \/ c.iw + LastOf(c.fh) > c.n                 \* initial window does not fit
          \/ ~c.sww                                    \* needs start_with_window
          \/ c.iw <= c.wl                              \* must exceed window_length

FirstCutoff(c) == IF c.iw # NONE THEN c.iw - 1
                  ELSE IF c.sww THEN c.wl - 1 ELSE -1
LastFeasible(c) == c.n - LastOf(c.fh) - 1              \* cutoff + max(fh) <= n-1

WindowCutoffs(c) == Grid(FirstCutoff(c), LastFeasible(c), c.sl)

WindowTrain(c, k, cut) ==
    IF c.iw # NONE /\ k = 1 THEN Run(0, cut)           \* the initial window
    ELSE IF c.kind = "expanding" THEN Run(0, cut)
    ELSE Run(Max2(0, cut - c.wl + 1), cut)              \* part of the window inside the series

WindowOutcome(c) ==
    IF WindowReject(c) THEN Rejected
    ELSE LET cs == WindowCutoffs(c) IN
         Accepted([k \in DOMAIN cs |->
                      [train |-> WindowTrain(c, k, cs[k]), test |-> Shift(cs[k], c.fh)]], cs)

(* Single window: one split whose test window ends with the series.        *)
SingleOutcome(c) ==
    LET cut == c.n - LastOf(c.fh) - 1 IN
    Accepted(<< [train |-> (IF c.wl = NONE THEN Run(0, cut) ELSE Run(Max2(0, cut - c.wl + 1), cut)),
                 test  |-> Shift(cut, c.fh)] >>, << cut >>)

(* Given cutoffs: validated cutoffs are sorted (check_cutoffs: "Returns      *)
(* cutoffs (Sorted array)"), splits are yielded in that temporal order.       *)
SortedCuts(c) == SetToSortSeq({c.cuts[i] : i \in DOMAIN c.cuts}, <)
CutoffReject(c) == \/ SeqMax(c.cuts) >= c.n
                   \/ SeqMax(c.cuts) + LastOf(c.fh) > c.n - 1
CutoffOutcome(c) ==
    IF CutoffReject(c) THEN Rejected
    ELSE LET cs == SortedCuts(c) IN
         Accepted([k \in DOMAIN cs |->
                      [train |-> Run(Max2(0, cs[k] - c.wl + 1), cs[k]),
                       test  |-> Shift(cs[k], c.fh)]], cs)

(* temporal_train_test_split by sizes (documented: unshuffled wrapper of   *)
(* scikit-learn's train_test_split: float = proportion, test rounded up,   *)
(* train rounded down; None = complement; both None = test 0.25).          *)
CeilDiv(a, b) == (a + b - 1) \div b
SizeValid(s, n) == CASE s[1] = "none" -> TRUE
                     [] s[1] = "int"  -> s[2] > 0 /\ s[2] < n
                     [] s[1] = "frac" -> s[2] > 0 /\ s[2] < 8
NTest(c) ==
    LET ts == IF c.ts[1] = "none" /\ c.tr[1] = "none" THEN <<"frac", 2>> ELSE c.ts IN
    CASE ts[1] = "int"  -> ts[2]
      [] ts[1] = "frac" -> CeilDiv(ts[2] * c.n, 8)
      [] OTHER -> -1
NTrainRaw(c) == CASE c.tr[1] = "int"  -> c.tr[2]
                  [] c.tr[1] = "frac" -> (c.tr[2] * c.n) \div 8
                  [] OTHER -> -1
TtsSizeOutcome(c) ==
    LET nte0 == NTest(c)
        ntr0 == NTrainRaw(c)
        ntr  == IF ntr0 = -1 THEN c.n - nte0 ELSE ntr0
        nte  == IF nte0 = -1 THEN c.n - ntr0 ELSE nte0
    IN  IF \/ ~SizeValid(c.ts, c.n) \/ ~SizeValid(c.tr, c.n)
           \/ (c.ts[1] = "frac" /\ c.tr[1] = "frac" /\ c.ts[2] + c.tr[2] > 8)
           \/ ntr + nte > c.n \/ ntr <= 0 \/ nte <= 0
        THEN Rejected
        ELSE Accepted(<< [train |-> Run(0, ntr - 1), test |-> Run(ntr, ntr + nte - 1)] >>,
                      << ntr - 1 >>)

(* temporal_train_test_split by horizon: the test window ends with the     *)
(* series; everything before the first possible test point is training.    *)
TtsFhOutcome(c) ==
    LET cut == c.n - LastOf(c.fh) - 1 IN
    IF cut < 0 THEN Rejected     \* nothing left to train on: outside the quantifier, see driver
    ELSE Accepted(<< [train |-> Run(0, cut), test |-> Shift(cut, c.fh)] >>, << cut >>)

Outcome(c) ==
    CASE c.kind \in {"sliding", "expanding"} -> WindowOutcome(c)
      [] c.kind = "single"   -> SingleOutcome(c)
      [] c.kind = "cutoff"   -> CutoffOutcome(c)
      [] c.kind = "tts_size" -> TtsSizeOutcome(c)
      [] c.kind = "tts_fh"   -> TtsFhOutcome(c)

-----------------------------------------------------------------------------
(* The property, clause by clause, over ANY outcome o claimed for c: used  *)
(* on the specification's own outcome (exhaustive model) and on what the    *)
(* implementation produced (trace validation).                             *)
IsRun(s) == \A i \in 1..(Len(s) - 1) : s[i + 1] = s[i] + 1
CutOf(o, k) == o.cutoffs[k]

TrainContiguousEndsAtCutoff(c, o) ==
    \A k \in DOMAIN o.splits :
        LET tr == o.splits[k].train IN
        IsRun(tr) /\ (Len(tr) > 0 => LastOf(tr) = CutOf(o, k))
TestIsCutoffPlusFh(c, o) ==
    c.kind # "tts_size" =>
        \A k \in DOMAIN o.splits : o.splits[k].test = Shift(CutOf(o, k), c.fh)
InsideSeries(c, o) ==
    \A k \in DOMAIN o.splits :
        /\ \A i \in DOMAIN o.splits[k].train : o.splits[k].train[i] \in 0..(c.n - 1)
        /\ \A i \in DOMAIN o.splits[k].test  : o.splits[k].test[i]  \in 0..(c.n - 1)
NoLeak(c, o) ==
    \A k \in DOMAIN o.splits :
        \A i \in DOMAIN o.splits[k].train : \A j \in DOMAIN o.splits[k].test :
            o.splits[k].train[i] < o.splits[k].test[j]
CutoffsAdvanceByStep(c, o) ==
    c.kind \in {"sliding", "expanding"} =>
        \A k \in 1..(Len(o.cutoffs) - 1) : o.cutoffs[k + 1] = o.cutoffs[k] + c.sl
FirstAndLastFeasible(c, o) ==
    (c.kind \in {"sliding", "expanding"} /\ ~o.rej) =>
        /\ Len(o.cutoffs) > 0
        /\ o.cutoffs[1] = FirstCutoff(c)
        /\ LastOf(o.cutoffs) <= LastFeasible(c)
        /\ LastOf(o.cutoffs) + c.sl > LastFeasible(c)
SlidingHasRequestedLength(c, o) ==
    (c.kind = "sliding" /\ c.sww) =>
        \A k \in DOMAIN o.splits :
            Len(o.splits[k].train) = IF c.iw # NONE /\ k = 1 THEN c.iw ELSE c.wl
ExpandingStartsAtZero(c, o) ==
    c.kind = "expanding" =>
        \A k \in DOMAIN o.splits : Len(o.splits[k].train) > 0 => o.splits[k].train[1] = 0
ReportedEqualsYielded(c, o) ==
    /\ o.nsplits = Len(o.splits)
    /\ Len(o.cutoffs) = Len(o.splits)
TtsPartition(c, o) ==
    (c.kind \in {"tts_size", "tts_fh"} /\ ~o.rej) =>
        /\ Len(o.splits) = 1
        /\ Len(o.splits[1].train) > 0 /\ o.splits[1].train[1] = 0
        /\ c.kind = "tts_size" => /\ IsRun(o.splits[1].test)
                                  /\ o.splits[1].test[1] = LastOf(o.splits[1].train) + 1

ClauseNames == << "TrainContiguousEndsAtCutoff", "TestIsCutoffPlusFh", "InsideSeries", "NoLeak",
                  "CutoffsAdvanceByStep", "FirstAndLastFeasible", "SlidingHasRequestedLength",
                  "ExpandingStartsAtZero", "ReportedEqualsYielded", "TtsPartition" >>
ClauseHolds(i, c, o) ==
    CASE i = 1 -> TrainContiguousEndsAtCutoff(c, o) [] i = 2 -> TestIsCutoffPlusFh(c, o)
      [] i = 3 -> InsideSeries(c, o)                [] i = 4 -> NoLeak(c, o)
      [] i = 5 -> CutoffsAdvanceByStep(c, o)        [] i = 6 -> FirstAndLastFeasible(c, o)
      [] i = 7 -> SlidingHasRequestedLength(c, o)   [] i = 8 -> ExpandingStartsAtZero(c, o)
      [] i = 9 -> ReportedEqualsYielded(c, o)       [] i = 10 -> TtsPartition(c, o)
AllClauses(c, o) == \A i \in DOMAIN ClauseNames : ClauseHolds(i, c, o)
=============================================================================
