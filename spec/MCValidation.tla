----------------------------- MODULE MCValidation -----------------------------
EXTENDS Validation, Json
CONSTANTS MaxLen, EmitVectors
Next == /\ Len(plan) < MaxLen
        /\ \/ \E op \in {"fit", "predict", "update"} : Valid(op)
           \/ \E k \in {"F_fit", "F_predict", "F_update"} : Faulty(k)
Spec == SInit /\ [][Next]_svars
HasFault == \E i \in DOMAIN plan : plan[i] \in {"F_fit", "F_predict", "F_update"}
\* a rejected call never produces fitted state and never counts as observed data
Inv_NoFittedStateFromFaults == (\A i \in DOMAIN plan : plan[i] # "fit") => ~fitted
Inv_DataOnlyFromAcceptedCalls == ndata = Cardinality({i \in DOMAIN plan : plan[i] \in {"fit", "update"}})
\* every entry of the table names known entry points and fault classes; no entry point is without faults
Inv_TableWellFormed == \A e \in Entries : Applicable(e) # {} /\ Applicable(e) \subseteq Faults
Emit == (EmitVectors /\ HasFault /\ Len(plan) >= 2 /\ plan[Len(plan)] \notin {"F_fit", "F_predict", "F_update"}) => PrintT(ToJson([plan |-> plan]))
=============================================================================
