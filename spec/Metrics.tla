------------------------------ MODULE Metrics ------------------------------
(***************************************************************************)
(* Forecasting performance metrics of sktime 0.6.0 (property C06), written  *)
(* from the definitions in the function docstrings (Hyndman & Koehler 2006) *)
(* over the exact numbers of Num.tla.                                       *)
(*                                                                         *)
(* A configuration is                                                      *)
(*   [metric, cols, hw, mo, sym, sqrt, sp, thr, lf, rf, rlf]                *)
(* cols: one record [yt, yp, ytr, yb] of integer sequences per output       *)
(* column (truth, forecast, training series, benchmark forecast);           *)
(* hw: horizon weights (<<>> = none); mo: "raw" | "uniform" | "weights"     *)
(* with mow the output weights; sym / sqrt: symmetric / square_root         *)
(* options; sp: seasonal period; thr, lf, rf: asymmetric threshold and      *)
(* left / right error functions; rlf: loss used by relative_loss.           *)
(* Result(c): per output column the SET of admissible values (a weighted    *)
(* median may be any value satisfying the weighted-median inequalities),    *)
(* or for aggregated multioutput the single aggregated value.               *)
(***************************************************************************)
EXTENDS Num

Nums(s) == [i \in DOMAIN s |-> Q(s[i])]
Err(col) == [i \in DOMAIN col.yt |-> Q(col.yt[i] - col.yp[i])]
AbsSeq(s) == [i \in DOMAIN s |-> Abs(s[i])]
SqSeq(s) == [i \in DOMAIN s |-> Sq(s[i])]
ClampEps(x) == MaxN(x, EPS)                       \* max(x, EPS) for x >= 0

\* percentage error per step (docstring: symmetric: 2|e| / (|y|+|yhat|); else e / |y|; denominators >= EPS)
PctErr(col, sym) ==
    [i \in DOMAIN col.yt |->
        IF sym THEN Div(Mul(Q(2), Abs(Q(col.yt[i] - col.yp[i]))),
                        ClampEps(Add(Abs(Q(col.yt[i])), Abs(Q(col.yp[i])))))
        ELSE Div(Q(col.yt[i] - col.yp[i]), ClampEps(Abs(Q(col.yt[i]))))]
\* relative error per step: e / e_benchmark with the benchmark error kept away from zero by +-EPS
RelErr(col) ==
    [i \in DOMAIN col.yt |->
        LET b == Q(col.yt[i] - col.yb[i])
            den == IF Sgn(b) >= 0 THEN MaxN(b, EPS) ELSE MinN(b, Neg(EPS))
        IN Div(Q(col.yt[i] - col.yp[i]), den)]
\* in-sample seasonal naive errors of the training series
NaiveErr(col, sp) == [i \in 1..(Len(col.ytr) - sp) |-> Q(col.ytr[i + sp] - col.ytr[i])]
AsymErr(col, thr, lf, rf) ==
    [i \in DOMAIN col.yt |->
        LET e == Q(col.yt[i] - col.yp[i])
            f == IF Lt(e, thr) THEN lf ELSE rf
        IN IF f = "squared" THEN Sq(e) ELSE Abs(e)]

\* aggregates over the horizon: sets of admissible values
AggMean(s, hw) == { IF Len(hw) = 0 THEN MeanN(s) ELSE WMeanN(s, hw) }
AggMedian(s, hw) == IF Len(hw) = 0 THEN { MedianN(s) } ELSE WMedians(s, hw)
ZeroFloor(s) == [i \in DOMAIN s |-> IF IsZero(s[i]) THEN EPS ELSE s[i]]
\* geometric means are reported through their W-th power (W = number of steps or total weight)
GeoPow(s, hw) ==
    IF Len(hw) = 0 THEN { ProdN(ZeroFloor(s)) }
    ELSE { ProdN([i \in DOMAIN s |-> Pow(ZeroFloor(s)[i], hw[i])]) }
MapSet(S, Op(_)) == { Op(x) : x \in S }

\* simple losses reused by the scaled metrics and relative_loss
Loss(name, col, hw) ==
    CASE name = "mae"  -> AggMean(AbsSeq(Err(col)), hw)
      [] name = "mse"  -> AggMean(SqSeq(Err(col)), hw)
      [] name = "mdae" -> AggMedian(AbsSeq(Err(col)), hw)
      [] name = "mdse" -> AggMedian(SqSeq(Err(col)), hw)
      [] name = "masym" -> AggMean(AsymErr(col, Q(0), "squared", "absolute"), hw)      \* not symmetric in truth / forecast
NaiveLoss(name, col, sp) ==
    LET e == NaiveErr(col, sp) IN
    CASE name = "mae"  -> MeanN(AbsSeq(e))  [] name = "mse"  -> MeanN(SqSeq(e))
      [] name = "mdae" -> MedianN(AbsSeq(e)) [] name = "mdse" -> MedianN(SqSeq(e))
BenchCol(col) == [col EXCEPT !.yp = col.yb]

\* value set of one output column; square roots are reported through the square (c.sqrt)
ColumnValues(c, col) ==
    CASE c.metric = "mean_absolute_error"   -> Loss("mae", col, c.hw)
      [] c.metric = "mean_squared_error"    -> Loss("mse", col, c.hw)
      [] c.metric = "median_absolute_error" -> Loss("mdae", col, c.hw)
      [] c.metric = "median_squared_error"  -> Loss("mdse", col, c.hw)
      [] c.metric = "mean_absolute_percentage_error"   -> AggMean(AbsSeq(PctErr(col, c.sym)), c.hw)
      [] c.metric = "median_absolute_percentage_error" -> AggMedian(AbsSeq(PctErr(col, c.sym)), c.hw)
      [] c.metric = "mean_squared_percentage_error"    -> AggMean(SqSeq(PctErr(col, c.sym)), c.hw)
      [] c.metric = "median_squared_percentage_error"  -> AggMedian(SqSeq(PctErr(col, c.sym)), c.hw)
      [] c.metric = "mean_absolute_scaled_error" ->
            MapSet(Loss("mae", col, c.hw), LAMBDA v : Div(v, ClampEps(NaiveLoss("mae", col, c.sp))))
      [] c.metric = "median_absolute_scaled_error" ->
            MapSet(Loss("mdae", col, c.hw), LAMBDA v : Div(v, ClampEps(NaiveLoss("mdae", col, c.sp))))
      [] c.metric = "mean_squared_scaled_error" ->
            MapSet(Loss("mse", col, c.hw), LAMBDA v : Div(v, ClampEps(NaiveLoss("mse", col, c.sp))))
      [] c.metric = "median_squared_scaled_error" ->
            MapSet(Loss("mdse", col, c.hw), LAMBDA v : Div(v, ClampEps(NaiveLoss("mdse", col, c.sp))))
      [] c.metric = "mean_relative_absolute_error"   -> AggMean(AbsSeq(RelErr(col)), c.hw)
      [] c.metric = "median_relative_absolute_error" -> AggMedian(AbsSeq(RelErr(col)), c.hw)
      [] c.metric = "geometric_mean_relative_absolute_error" -> GeoPow(AbsSeq(RelErr(col)), c.hw)
      [] c.metric = "geometric_mean_relative_squared_error"  -> GeoPow(SqSeq(RelErr(col)), c.hw)
      [] c.metric = "mean_asymmetric_error" -> AggMean(AsymErr(col, Q(c.thr), c.lf, c.rf), c.hw)
      [] c.metric = "relative_loss" ->
            { Div(a, ClampEps(b)) : a \in Loss(c.rlf, col, c.hw), b \in Loss(c.rlf, BenchCol(col), c.hw) }

IsGeometric(c) == c.metric \in {"geometric_mean_relative_absolute_error", "geometric_mean_relative_squared_error"}
\* the power of the returned float that the listed value describes
Power(c) ==
    LET w == IF Len(c.hw) = 0 THEN Len(c.cols[1].yt) ELSE SumI(c.hw) IN
    IF IsGeometric(c) THEN (IF c.sqrt THEN 2 * w ELSE w)   \* (W-th root of the product)^(1/2) when square_root
    ELSE IF c.sqrt THEN 2 ELSE 1

\* multioutput aggregation (only generated for single-valued columns without sqrt)
One(S) == CHOOSE x \in S : TRUE
Result(c) ==
    LET per == [j \in DOMAIN c.cols |-> ColumnValues(c, c.cols[j])] IN
    IF c.mo = "raw" THEN [kind |-> "raw", cols |-> per]
    ELSE IF c.mo = "uniform" THEN [kind |-> "agg", val |-> MeanN([j \in DOMAIN per |-> One(per[j])])]
    ELSE [kind |-> "agg", val |-> WMeanN([j \in DOMAIN per |-> One(per[j])], c.mow)]
=============================================================================
