------------------------------ MODULE MCEstimator ------------------------------
(* All operation sequences up to MaxOps on an abstract estimator; `plan` is replayed on every runnable class. *)
EXTENDS Estimator, Json
CONSTANTS MaxOps, EmitVectors
VARIABLES plan, clones
vars == <<params, fitted, plan, clones>>
Init == EInit /\ plan = << >> /\ clones = 0
Step(op, act) == Len(plan) < MaxOps /\ act /\ plan' = Append(plan, op)
Next ==
    \/ Step(<<"get", "">>, GetParams) /\ UNCHANGED clones
    \/ Step(<<"set_same", "">>, SetSame) /\ UNCHANGED clones
    \/ \E n \in Names : Step(<<"set_alt", n>>, SetAlt(n)) /\ UNCHANGED clones
    \/ \E n \in Names : params[n] = "alt" /\ Step(<<"set_orig", n>>, SetOrig(n)) /\ UNCHANGED clones
    \/ Step(<<"set_unknown", "">>, SetUnknown) /\ UNCHANGED clones
    \/ Step(<<"clone", "">>, UNCHANGED evars) /\ clones' = clones + 1          \* the clone is inspected, work continues on the original
    \/ (~fitted /\ Step(<<"apply_unfitted", "">>, UNCHANGED evars) /\ UNCHANGED clones)
    \/ (~fitted /\ Step(<<"fit", "">>, Fit) /\ UNCHANGED clones)
Spec == Init /\ [][Next]_vars
\* design checks
Inv_SetGetIdentity == \A n \in Names : params[n] \in {"orig", "alt"}
Inv_FittedOnlyByFit == fitted => \E i \in DOMAIN plan : plan[i][1] = "fit"
Inv_ParamsOnlyBySetParams ==
    \A n \in Names : params[n] = "alt" => \E i \in DOMAIN plan : plan[i] = <<"set_alt", n>>
Emit == (EmitVectors /\ Len(plan) = MaxOps) => PrintT(ToJson([plan |-> plan]))
=============================================================================
