------------------------------ MODULE Horizon ------------------------------
(***************************************************************************)
(* Forecasting-horizon algebra of sktime 0.6.0 (property C02; reused by    *)
(* Forecaster.tla, Splitters users).                                       *)
(*                                                                         *)
(* A raw input is [kind, vals, rel, fault] where vals is the sequence of    *)
(* integer steps AS GIVEN (any order), rel says whether they are relative   *)
(* to the cutoff, and fault \in {"none","dup","frac","badtype","empty"}.    *)
(* A horizon is [vals |-> strictly increasing Seq(Int), rel |-> BOOLEAN].   *)
(***************************************************************************)
EXTENDS Integers, Sequences, FiniteSets, SequencesExt

HasDup(s) == Cardinality(ToSet(s)) # Len(s)
AscSeq(s) == SetToSortSeq(ToSet(s), <)
StrictlyInc(s) == \A i \in 1..(Len(s) - 1) : s[i] < s[i + 1]

(* Construction: duplicates, fractional values, unsupported types are       *)
(* rejected, never coerced; otherwise the values are stored sorted.         *)
Rejects(raw) == raw.fault \in {"dup", "frac", "badtype"} \/ HasDup(raw.vals)
Make(raw) == [vals |-> AscSeq(raw.vals), rel |-> raw.rel]

RelSteps(h, c) == IF h.rel THEN h.vals ELSE [i \in DOMAIN h.vals |-> h.vals[i] - c]
AbsTimes(h, c) == IF h.rel THEN [i \in DOMAIN h.vals |-> c + h.vals[i]] ELSE h.vals
ToRel(h, c) == [vals |-> RelSteps(h, c), rel |-> TRUE]
ToAbs(h, c) == [vals |-> AbsTimes(h, c), rel |-> FALSE]
\* in-sample / out-of-sample parts keep the form (relative or absolute) of h
KeepWhere(h, c, P(_)) ==
    LET r == RelSteps(h, c)
        keep == { i \in DOMAIN h.vals : P(r[i]) } IN
    [vals |-> SetToSortSeq({h.vals[i] : i \in keep}, <), rel |-> h.rel]
InSample(h, c)  == KeepWhere(h, c, LAMBDA s : s <= 0)
OutSample(h, c) == KeepWhere(h, c, LAMBDA s : s > 0)
AllIn(h, c)  == \A i \in DOMAIN h.vals : RelSteps(h, c)[i] <= 0
AllOut(h, c) == \A i \in DOMAIN h.vals : RelSteps(h, c)[i] > 0
Indexer(h, c) == [i \in DOMAIN h.vals |-> RelSteps(h, c)[i] - 1]
\* the other documented form: zero-based from the horizon's own first step
Indexer0(h, c) == [i \in DOMAIN h.vals |-> RelSteps(h, c)[i] - RelSteps(h, c)[1]]
AbsInt(h, c, start) == [i \in DOMAIN h.vals |-> AbsTimes(h, c)[i] - start]

(* Everything observable for one (raw input, cutoff, start).                *)
Expected(raw, c, start) ==
    IF Rejects(raw) THEN [rej |-> TRUE]
    ELSE LET h == Make(raw) IN
      [rej |-> FALSE, vals |-> h.vals, rel |-> h.rel,
       abs |-> ToAbs(h, c).vals, relv |-> ToRel(h, c).vals,
       rt |-> IF h.rel THEN ToRel(ToAbs(h, c), c).vals ELSE ToAbs(ToRel(h, c), c).vals,
       ins |-> InSample(h, c).vals, oos |-> OutSample(h, c).vals,
       insrel |-> h.rel, oosrel |-> h.rel,
       allin |-> AllIn(h, c), allout |-> AllOut(h, c),
       idx |-> Indexer(h, c), idx0 |-> Indexer0(h, c), absint |-> AbsInt(h, c, start),
       emptyrej |-> TRUE]

-----------------------------------------------------------------------------
(* The property clause by clause over any claimed observation o.            *)
StoredSorted(raw, c, o) == StrictlyInc(o.vals) /\ ToSet(o.vals) = ToSet(raw.vals) /\ o.rel = raw.rel
AbsIsCutoffPlusSteps(raw, c, o) ==
    /\ Len(o.abs) = Len(o.vals) /\ Len(o.relv) = Len(o.vals)
    /\ \A i \in DOMAIN o.vals : o.abs[i] = c + o.relv[i]
    /\ (IF raw.rel THEN o.relv ELSE o.abs) = o.vals
RoundTrip(raw, c, o) == o.rt = o.vals
PartitionAtZero(raw, c, o) ==
    LET steps(v) == IF raw.rel THEN v ELSE v - c IN
    /\ ToSet(o.ins) \cup ToSet(o.oos) = ToSet(o.vals)
    /\ ToSet(o.ins) \cap ToSet(o.oos) = {}
    /\ \A x \in ToSet(o.ins) : steps(x) <= 0
    /\ \A x \in ToSet(o.oos) : steps(x) > 0
    /\ StrictlyInc(o.ins) /\ StrictlyInc(o.oos)
    /\ o.insrel = raw.rel /\ o.oosrel = raw.rel
PredicatesAgree(raw, c, o) ==
    /\ o.allin  = (o.oos = << >>)
    /\ o.allout = (o.ins = << >>)
IndexerIsStepsMinusOne(raw, c, o) ==
    /\ Len(o.idx) = Len(o.relv)
    /\ \A i \in DOMAIN o.idx : o.idx[i] = o.relv[i] - 1
    /\ Len(o.idx0) = Len(o.relv)
    /\ \A i \in DOMAIN o.idx0 : o.idx0[i] = o.relv[i] - o.relv[1]
EmptyRejectedByCheck(raw, c, o) == o.emptyrej

HClauseNames == << "StoredSorted", "AbsIsCutoffPlusSteps", "RoundTrip", "PartitionAtZero",
                   "PredicatesAgree", "IndexerIsStepsMinusOne", "EmptyRejectedByCheck" >>
HClauseHolds(i, raw, c, o) ==
    CASE i = 1 -> StoredSorted(raw, c, o)         [] i = 2 -> AbsIsCutoffPlusSteps(raw, c, o)
      [] i = 3 -> RoundTrip(raw, c, o)            [] i = 4 -> PartitionAtZero(raw, c, o)
      [] i = 5 -> PredicatesAgree(raw, c, o)      [] i = 6 -> IndexerIsStepsMinusOne(raw, c, o)
      [] i = 7 -> EmptyRejectedByCheck(raw, c, o)
HAllClauses(raw, c, o) == o.rej \/ \A i \in DOMAIN HClauseNames : HClauseHolds(i, raw, c, o)
=============================================================================
