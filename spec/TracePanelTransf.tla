--------------------------- MODULE TracePanelTransf ---------------------------
EXTENDS PanelTransf, TLC, Json, IOUtils
Trace == ndJsonDeserialize(IOEnv.TRACE_FILE)
VARIABLE l
TInit == l = 1
Verdict(e) ==
    IF e.obs = Out(e.case) THEN TRUE
    ELSE PrintT(<<"REJECT", e.tid,
                  IF Len(e.obs) # Len(e.case.X) THEN "OneRowPerInstanceInOrder" ELSE "DocumentedFunction">>)
TNext == \/ l <= Len(Trace) /\ Verdict(Trace[l]) /\ l' = l + 1
         \/ l = Len(Trace) + 1 /\ PrintT(<<"DONE", Len(Trace)>>) /\ l' = l + 1
TSpec == TInit /\ [][TNext]_l
=============================================================================
