---------------------------- MODULE TraceCompose ----------------------------
EXTENDS Compose, TLC, Json, IOUtils
Trace == ndJsonDeserialize(IOEnv.TRACE_FILE)
VARIABLE l
TInit == l = 1
Failing(c, o, exp) ==
    IF ~o.protos_unfitted THEN "PrototypesStayUnfitted"
    ELSE IF ~o.independent THEN "IndependentlyFittedClones"
    ELSE IF ~o.alpha_ok THEN "MuxBehavesLikeSelectedMember"
    ELSE LET bad == { i \in DOMAIN CClauseNames : ~CClauseHolds(i, c, o) } IN
    IF bad # {} THEN CClauseNames[CHOOSE i \in bad : \A j \in bad : i <= j]
    ELSE IF o.events # exp.events THEN "ComponentCallsDiffer"
    ELSE IF o.index # exp.index THEN "ForecastIndex"
    ELSE "ForecastIsCompositionOfParts"
Verdict(e) ==
    LET exp == ExpectedCompose(e.cfg) IN
    IF e.obs = exp THEN TRUE ELSE PrintT(<<"REJECT", e.tid, Failing(e.cfg, e.obs, exp)>>)
TNext == \/ l <= Len(Trace) /\ Verdict(Trace[l]) /\ l' = l + 1
         \/ l = Len(Trace) + 1 /\ PrintT(<<"DONE", Len(Trace)>>) /\ l' = l + 1
TSpec == TInit /\ [][TNext]_l
=============================================================================
