--------------------------- MODULE MCSeriesTransf ---------------------------
EXTENDS SeriesTransf, Json
CONSTANTS MaxUps, EmitVectors
VARIABLES stage, cfg
vars == <<stage, cfg>>
Init == stage = "shape" /\ cfg = [kind |-> "any", n |-> 12, sp |-> 4, lo |-> 0, len |-> 8, ups |-> << >>, origin |-> 0,
                                  same_index |-> TRUE, inverse |-> TRUE]
PickShape == /\ stage = "shape"
             /\ \E n \in {12, 13, 16}, sp \in 2..4 : cfg' = [cfg EXCEPT !.n = n, !.sp = sp]
             /\ stage' = "ups"
AddUp == /\ stage = "ups" /\ Len(cfg.ups) < MaxUps
         /\ \E b \in 1..5 : cfg' = [cfg EXCEPT !.ups = Append(@, b)]
         /\ UNCHANGED stage
PickStretch == /\ stage = "ups"
               /\ \E off \in 0..12, len \in {1, 2, 5, 8}, o \in {0, 5, 1000} :
                      cfg' = [cfg EXCEPT !.lo = off, !.len = len, !.origin = o]
               /\ stage' = "done"
Next == PickShape \/ AddUp \/ PickStretch
Spec == Init /\ [][Next]_vars
Done == stage = "done"
\* the expected phase is periodic in time and anchored at the training start
Inv_PhasePeriodic ==
    Done => LET c == [cfg EXCEPT !.kind = "deseason_add"] e == ExpectedST(c) IN
            \A i \in 1..(c.len - c.sp) : e.phases[i] = e.phases[i + c.sp]
Inv_PhaseAnchoredAtTrainingStart ==
    Done => LET c == [cfg EXCEPT !.kind = "deseason_add"] IN (c.lo % c.sp = 0) => ExpectedST(c).phases[1] = 0
Emit == (Done /\ EmitVectors) => PrintT(ToJson([cfg |-> cfg]))
=============================================================================
