------------------------------ MODULE Containers ------------------------------
(***************************************************************************)
(* Panel data container conversions are lossless and mutually consistent    *)
(* (property C15).                                                          *)
(*                                                                         *)
(* A panel is a tensor of tokens tok(i, c, t) (instance, variable, time).    *)
(* Conversions never change the tensor; what they may change is             *)
(*   rep    the representation: "ns"/"na" nested frame with Series / array   *)
(*          cells, "np3" 3-d array, "mi" multi-index frame, "long" long      *)
(*          table, "t2" 2-d table (univariate panels only), "np3n" a 3-d     *)
(*          array whose owner kept the variable names and hands them to the   *)
(*          next conversion as column_names                                  *)
(*   order  the order in which the original variables appear                 *)
(*   names  the variable names carried (ranks: the name with rank r sorts    *)
(*          before rank r+1; default names var_0, var_1, ... have ranks      *)
(*          101, 102, ...; << >> when the representation carries none)       *)
(*   tl     the time labels carried: "orig" (the labels the series cells     *)
(*          came with -- reversed, or starting elsewhere for every instance)  *)
(*          or "default" (0..t-1: arrays carry no labels, so a conversion    *)
(*          into or out of an array representation numbers the points anew)  *)
(* Step(v, edge) is the documented effect of one conversion function.        *)
(***************************************************************************)
EXTENDS Integers, Sequences, FiniteSets, TLC, SequencesExt

Carries == {"ns", "na", "mi", "long", "np3n"}
Edges == { <<"ns", "np3">>, <<"na", "np3">>, <<"np3", "ns">>, <<"np3", "na">>,
           <<"ns", "mi">>, <<"na", "mi">>, <<"mi", "ns">>, <<"mi", "na">>, <<"mi", "np3">>, <<"np3", "mi">>,
           <<"ns", "long">>, <<"na", "long">>, <<"long", "ns">>,
           <<"ns", "t2">>, <<"t2", "ns">>, <<"np3", "t2">>,
           <<"ns", "np3n">>, <<"na", "np3n">>, <<"mi", "np3n">>, <<"np3n", "ns">>, <<"np3n", "na">>, <<"np3n", "mi">> }
DefaultNames(k) == [j \in 1..k |-> 100 + j]
\* permutation that sorts the variables by their identifier (rank)
SortPerm(names) == SetToSortSeq(DOMAIN names, LAMBDA a, b : names[a] < names[b])
LabelLess == {"np3", "np3n", "t2", "na"}
StepCore(v, to) ==
    LET k == Len(v.order) IN
    CASE to = "np3n" -> [rep |-> to, order |-> v.order, names |-> v.names]      \* the names travel next to the array
      [] to \in {"np3", "t2"} -> [rep |-> to, order |-> v.order, names |-> << >>]
      [] v.rep \in {"np3", "t2"} -> [rep |-> to, order |-> v.order, names |-> DefaultNames(k)]   \* fresh default names
      [] v.rep = "long" ->         \* the long table orders variables by identifier; names are not restored
           LET p == SortPerm(v.names) IN
           [rep |-> to, order |-> [j \in 1..k |-> v.order[p[j]]], names |-> DefaultNames(k)]
      [] OTHER -> [rep |-> to, order |-> v.order, names |-> v.names]               \* name-carrying to name-carrying
Step(v, to) ==
    LET c == StepCore(v, to) IN
    [rep |-> c.rep, order |-> c.order, names |-> c.names,
     tl |-> (IF to \in LabelLess \/ v.rep \in LabelLess THEN "default" ELSE v.tl)]
RECURSIVE Walk(_, _)
Walk(v, path) == IF Len(path) = 0 THEN v ELSE Walk(Step(v, Head(path)), Tail(path))
ValidPath(from, path, ncol) ==
    /\ \A i \in DOMAIN path : <<(IF i = 1 THEN from ELSE path[i - 1]), path[i]>> \in Edges
    /\ (ncol > 1 => \A i \in DOMAIN path : path[i] # "t2")
Start(rep, names, tl) == [rep |-> rep, order |-> [j \in DOMAIN names |-> j], names |-> names, tl |-> tl]
Expected(c) == Walk(Start(c.from, c.names, IF (c.trev \/ c.tshift) /\ c.from = "ns" THEN "orig" ELSE "default"), c.path)
Identity(k) == [j \in 1..k |-> j]
\* nestedness predicates: m[i][j] says whether the cell of row i, column j holds a series / array;
\* a column is nested iff some row's cell is; a frame is nested iff some column is
ColumnsNested(m) == [j \in DOMAIN m[1] |-> \E i \in DOMAIN m : m[i][j]]
FrameNested(m) == \E i \in DOMAIN m : \E j \in DOMAIN m[1] : m[i][j]
=============================================================================
