-------------------------------- MODULE TsFile --------------------------------
(***************************************************************************)
(* The .ts time-series file format: writer, line-level parser state machine *)
(* and loader relations (property C18).                                     *)
(*                                                                         *)
(* A file is a sequence of abstract lines                                  *)
(*   [k, b, n, labs, vals, lab]                                            *)
(* k: "comment" | "problemName" | "timeStamps" | "univariate" |             *)
(*    "equalLength" | "seriesLength" | "classLabel" | "data" | "case" |      *)
(*    "unknownTag"; b: the Boolean token ("true"/"false"/"" missing/"maybe"  *)
(*    invalid) or for problemName "x"/"" ; n: integer argument; labs: class  *)
(*    labels; vals: value identifiers of a case line; lab: case label.       *)
(* Labels are pairs <<as written, lower-cased>> (the parser normalises       *)
(* letter case).  A panel is [cases |-> Seq([vals, lab])] with lab = ""      *)
(* when there are no class labels.                                           *)
(***************************************************************************)
EXTENDS Integers, Sequences, FiniteSets, TLC

L(k, b, n, labs, vals, lab) == [k |-> k, b |-> b, n |-> n, labs |-> labs, vals |-> vals, lab |-> lab]
NoLab == <<"", "">>

(* ---- writer: write_dataframe_to_tsfile ---------------------------------- *)
\* opts: [comment, equal, labelled]; panel: Seq([vals, lab]); labels: Seq of label pairs
WriterLines(opts, panel, labels) ==
    (IF opts.comment THEN << L("comment", "", 0, << >>, << >>, NoLab) >> ELSE << >>)
    \o << L("problemName", "x", 0, << >>, << >>, NoLab),
          L("timeStamps", "false", 0, << >>, << >>, NoLab),
          L("univariate", "true", 0, << >>, << >>, NoLab) >>
    \o (IF opts.equal THEN << L("equalLength", "true", 0, << >>, << >>, NoLab),
                              L("seriesLength", "", Len(panel[1].vals), << >>, << >>, NoLab) >> ELSE << >>)
    \o << (IF opts.labelled THEN L("classLabel", "true", 0, labels, << >>, NoLab)
                            ELSE L("classLabel", "false", 0, << >>, << >>, NoLab)),
          L("data", "", 0, << >>, << >>, NoLab) >>
    \o [i \in DOMAIN panel |-> L("case", "", 0, << >>, panel[i].vals, panel[i].lab)]

(* ---- parser: load_from_tsfile_to_dataframe as a state machine over lines -- *)
PInit == [pn |-> FALSE, ts |-> FALSE, uni |-> FALSE, cl |-> FALSE, data |-> FALSE, meta |-> FALSE,
          labelled |-> FALSE, labs |-> {}, cases |-> << >>, rej |-> FALSE]
IsBool(b) == b \in {"true", "false"}
PStep(s, ln) ==
    IF s.rej THEN s
    ELSE CASE ln.k = "problemName" ->
                 IF s.data \/ ln.b = "" THEN [s EXCEPT !.rej = TRUE] ELSE [s EXCEPT !.pn = TRUE, !.meta = TRUE]
           [] ln.k = "timeStamps" ->
                 IF s.data \/ ~IsBool(ln.b) THEN [s EXCEPT !.rej = TRUE] ELSE [s EXCEPT !.ts = TRUE, !.meta = TRUE]
           [] ln.k = "univariate" ->
                 IF s.data \/ ~IsBool(ln.b) THEN [s EXCEPT !.rej = TRUE] ELSE [s EXCEPT !.uni = TRUE, !.meta = TRUE]
           [] ln.k = "classLabel" ->
                 IF s.data \/ ~IsBool(ln.b) \/ (ln.b = "true" /\ Len(ln.labs) = 0) THEN [s EXCEPT !.rej = TRUE]
                 ELSE [s EXCEPT !.cl = TRUE, !.meta = TRUE, !.labelled = (ln.b = "true"),
                                !.labs = {ln.labs[i][2] : i \in DOMAIN ln.labs}]
           [] ln.k = "data" ->
                 IF ln.b # "" THEN [s EXCEPT !.rej = TRUE] ELSE [s EXCEPT !.data = TRUE]
           [] ln.k = "case" ->
                 IF ~s.data THEN s                                          \* text before @data is ignored
                 ELSE IF ~(s.pn /\ s.ts /\ s.uni /\ s.cl) THEN [s EXCEPT !.rej = TRUE]   \* full metadata required
                 \* (membership of the case label in the declared label list is not part of the property: the
                 \* reference parser only checks it for time-stamped data)
                 ELSE IF s.labelled /\ ln.lab = NoLab THEN [s EXCEPT !.rej = TRUE]
                 ELSE IF ~s.labelled /\ ln.lab # NoLab THEN [s EXCEPT !.rej = TRUE]
                 ELSE [s EXCEPT !.cases = Append(@, [vals |-> ln.vals, lab |-> ln.lab[2]])]
           [] OTHER -> s                                                    \* comments, @equalLength, @seriesLength, unknown tags
RECURSIVE PRun(_, _)
PRun(s, lines) == IF Len(lines) = 0 THEN s ELSE PRun(PStep(s, Head(lines)), Tail(lines))
Parse(lines) ==
    LET s == PRun(PInit, lines) IN
    IF Len(lines) = 0 \/ s.rej THEN [rej |-> TRUE, cases |-> << >>, labelled |-> FALSE]
    ELSE IF s.meta /\ ~(s.pn /\ s.ts /\ s.uni /\ s.cl /\ s.data) THEN [rej |-> TRUE, cases |-> << >>, labelled |-> FALSE]
    ELSE IF Len(s.cases) = 0 THEN [rej |-> TRUE, cases |-> << >>, labelled |-> FALSE]
    ELSE [rej |-> FALSE, cases |-> s.cases, labelled |-> s.labelled]

(* ---- the property ------------------------------------------------------- *)
\* what loading must return for a written panel: same cases in order, labels up to letter case
Normalised(panel, labelled) == [i \in DOMAIN panel |-> [vals |-> panel[i].vals, lab |-> (IF labelled THEN panel[i].lab[2] ELSE "")]]
RoundTrip(opts, panel, labels) ==
    Parse(WriterLines(opts, panel, labels)) = [rej |-> FALSE, cases |-> Normalised(panel, opts.labelled), labelled |-> opts.labelled]

(* ---- loader relations (dataset level; fingerprints per instance) --------- *)
\* d: [ts, arff, tsv: Seq(fp) of the TRAIN file in the three formats; lts, larff, ltsv: labels; train, test, all: Seq(fp)
\*     of the bundled loader for split train / test / None; xy_all, frame_all: the two return forms]
FormatsAgree(d) == d.arff = d.ts /\ d.tsv = d.ts /\ d.larff = d.lts /\ d.ltsv = d.lts
SplitNoneIsTrainThenTest(d) == d.all = d.train \o d.test /\ d.lall = d.ltrain \o d.ltest
XyFormEqualsFrameForm(d) == d.frame_all = d.all /\ d.lframe_all = d.lall
=============================================================================
