---------------------------- MODULE TraceContainers ----------------------------
EXTENDS Containers, Json, IOUtils
Trace == ndJsonDeserialize(IOEnv.TRACE_FILE)
VARIABLE l
TInit == l = 1
Tok(i, c, t) == 1000 * i + 100 * c + t
\* tokens of the panel read instance by instance, variable by variable (in the order they appear), time by time
Flat(n, order, t) == [x \in 1..(n * Len(order) * t) |->
                         LET i == (x - 1) \div (Len(order) * t)
                             r == (x - 1) % (Len(order) * t)
                         IN Tok(i, order[(r \div t) + 1] - 1, r % t)]
Ok(e) == LET x == Expected(e.cfg) IN
         /\ e.obs.rep = x.rep
         /\ e.obs.shape = <<e.cfg.n, Len(e.cfg.names), e.cfg.t>>
         /\ e.obs.names = x.names
         /\ e.obs.tokens = Flat(e.cfg.n, x.order, e.cfg.t)
         /\ e.obs.nested = (x.rep \in {"ns", "na"})            \* nestedness predicates
         /\ e.obs.tl = x.tl                                    \* time labels kept / numbered anew
Clause(e) == LET x == Expected(e.cfg) IN
    IF e.obs.shape # <<e.cfg.n, Len(e.cfg.names), e.cfg.t>> THEN "ShapePreserved"
    ELSE IF e.obs.tokens # Flat(e.cfg.n, x.order, e.cfg.t) THEN "ValuesAndOrderPreserved"
    ELSE IF e.obs.names # x.names THEN "NamesPreservedWhenCarried"
    ELSE IF e.obs.nested # (x.rep \in {"ns", "na"}) THEN "NestednessPredicates"
    ELSE IF e.obs.tl # x.tl THEN "TimeLabelsKeptWhenCarried" ELSE "Representation"
Verdict(e) == IF Ok(e) THEN TRUE ELSE PrintT(<<"REJECT", e.tid, Clause(e)>>)
TNext == \/ l <= Len(Trace) /\ Verdict(Trace[l]) /\ l' = l + 1
         \/ l = Len(Trace) + 1 /\ PrintT(<<"DONE", Len(Trace)>>) /\ l' = l + 1
TSpec == TInit /\ [][TNext]_l
=============================================================================
