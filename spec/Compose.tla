------------------------------ MODULE Compose ------------------------------
(***************************************************************************)
(* Composite forecasters mean the composition of their parts (C09).         *)
(*                                                                         *)
(* A composite is a tree of records [kind, id, agg, ts, sel, kids]:          *)
(*   "leaf"  : component forecaster number id                               *)
(*   "ens"   : EnsembleForecaster(kids, aggfunc = agg)                       *)
(*   "pipe"  : TransformedTargetForecaster(transformers ts, final kids[1])   *)
(*   "mux"   : MultiplexForecaster(kids, selected = sel)                     *)
(*   "stack" : StackingForecaster(kids, meta-regressor)                      *)
(*   "online": OnlineEnsembleForecaster(kids, weighting algorithm): a        *)
(*             weighted sum of the members; on every update the algorithm is  *)
(*             shown what the members forecast for the NEW observations from  *)
(*             the cutoff before them, and only then do the members see them  *)
(* Data carry a REPRESENTATION: the sequence of transformer ids applied so   *)
(* far (the recording transformers tag every value, the decoder reads the    *)
(* tags back).  Transformer ids >= 7 carry the skip-inverse-transform tag.   *)
(* The semantic functions list, in call order, every call a component must    *)
(* receive for fit / update / predict of the whole tree, and the values the   *)
(* composite must return.  Component forecasts are the tokens                 *)
(*   F(j, c, i) = 500000 + 10000*j + 100*(c % 100) + i                        *)
(* (leaf j, forecasting from cutoff c, i-th requested step).                 *)
(***************************************************************************)
EXTENDS Num

FTok(j, c, i) == 500000 + 10000 * j + 100 * (c % 100) + i
MTok(k) == 100000 + 100 * k                               \* output of the (stub) meta-regressor; k = 1
YTok(t) == 1000 + t
Skip(k) == k >= 7
HasUpdate(k) == k \notin {4, 5}           \* transformers 4, 5 offer no update method (like log / Box-Cox)
Ev(ev, who, rep, lo, hi, upd, x, y) ==
    [ev |-> ev, who |-> who, rep |-> rep, lo |-> lo, hi |-> hi, upd |-> upd, x |-> x, y |-> y]
None == << >>
RECURSIVE CatAll(_)
CatAll(ss) == IF Len(ss) = 0 THEN << >> ELSE Head(ss) \o CatAll(Tail(ss))
LastS(s) == s[Len(s)]
Reverse(s) == [i \in 1..Len(s) |-> s[Len(s) + 1 - i]]
Prefix(s, n) == [i \in 1..n |-> s[i]]

(* ---- values ---------------------------------------------------------- *)
\* aggregate of a set of per-member integer forecasts for one step, as an exact number
Agg(agg, q) ==
    CASE agg = "mean" -> MeanN(q)
      [] agg = "median" -> MedianN(q)
      [] agg = "min" -> Kth(q, 1)
      [] agg = "max" -> Kth(q, Len(q))
\* the recording transformer k maps v to 10*v + k, its inverse maps v to (v - k)/10; a pipeline forecast
\* is the final forecaster's output (which lives in the fully transformed representation) pulled back
\* through the inverses in reverse order, skipping transformers tagged skip-inverse-transform
RECURSIVE Push(_, _)
Push(v, ts) == IF Len(ts) = 0 THEN v ELSE Push(Add(Mul(Q(10), v), Q(Head(ts))), Tail(ts))
RECURSIVE Pull(_, _)
Pull(v, rts) == IF Len(rts) = 0 THEN v
                ELSE Pull(IF Skip(Head(rts)) THEN v ELSE Div(Sub(v, Q(Head(rts))), Q(10)), Tail(rts))
Tagged(v, ts) == Pull(Push(v, ts), Reverse(ts))
\* weights of the (stub) weighting algorithm for n members: dyadic, so that the weighted sum is exact in floating point
\* (they do not sum to one -- like non-negative least-squares weights: the forecast is the plain weighted sum)
OnW(n) == CASE n = 1 -> << Frac(1, 2) >> [] n = 2 -> << Frac(1, 4), Frac(1, 2) >> [] OTHER -> << Frac(1, 2), Frac(1, 4), Frac(1, 8) >>
RECURSIVE Val(_, _, _, _)
\* forecast of tree tr from cutoff c for the i-th of nfh requested steps; mk = number of meta-predict calls so far
Val(tr, c, i, mk) ==
    CASE tr.kind = "leaf"  -> Q(FTok(tr.id, c, i))
      [] tr.kind = "ens"   -> Agg(tr.agg, [j \in DOMAIN tr.kids |-> Val(tr.kids[j], c, i, mk)])
      [] tr.kind = "pipe"  -> Tagged(Val(tr.kids[1], c, i, mk), tr.ts)
      [] tr.kind = "mux"   -> Val(tr.kids[tr.sel], c, i, mk)
      [] tr.kind = "stack" -> Q(MTok(mk))
      [] tr.kind = "online" -> SumN([j \in DOMAIN tr.kids |-> Mul(OnW(Len(tr.kids))[j], Val(tr.kids[j], c, i, mk))])

\* a member's (integral) forecast token as it appears in the meta-regressor's feature matrix
MemberTok(kid, c, i) == Val(kid, c, i, 1)[1]

(* ---- calls ----------------------------------------------------------- *)
RECURSIVE FitEv(_, _, _, _, _)
RECURSIVE PredEv(_, _, _)
\* fit of subtree tr on observations lo..hi given in representation rep, horizon steps fh
FitEv(tr, rep, lo, hi, fh) ==
    CASE tr.kind = "leaf" -> << Ev("fit", tr.id, rep, lo, hi, FALSE, None, None) >>
      [] tr.kind \in {"ens", "online"} -> CatAll([j \in DOMAIN tr.kids |-> FitEv(tr.kids[j], rep, lo, hi, fh)])
      [] tr.kind = "mux"  -> FitEv(tr.kids[tr.sel], rep, lo, hi, fh)         \* only the selected member
      [] tr.kind = "pipe" ->
            CatAll([k \in DOMAIN tr.ts |->
                      << Ev("tfit", tr.ts[k], rep \o Prefix(tr.ts, k - 1), lo, hi, FALSE, None, None),
                         Ev("ttransform", tr.ts[k], rep \o Prefix(tr.ts, k - 1), lo, hi, FALSE, None, None) >>])
            \o FitEv(tr.kids[1], rep \o tr.ts, lo, hi, fh)                    \* final forecaster: fully transformed
      [] tr.kind = "stack" ->
            LET m == LastS(fh)                                                \* held-out final window
                inner == hi - m IN
            CatAll([j \in DOMAIN tr.kids |-> FitEv(tr.kids[j], rep, lo, inner, fh)])   \* members do not see it
            \o CatAll([j \in DOMAIN tr.kids |-> PredEv(tr.kids[j], inner, fh)])
            \o << Ev("mfit", 0, None, 0, 0, FALSE,
                     [i \in DOMAIN fh |-> [j \in DOMAIN tr.kids |-> MemberTok(tr.kids[j], inner, i)]],
                     [i \in DOMAIN fh |-> YTok(inner + fh[i])]) >>
            \o CatAll([j \in DOMAIN tr.kids |-> FitEv(tr.kids[j], rep, lo, hi, fh)])   \* then refit on everything
PredEv(tr, c, fh) ==
    CASE tr.kind = "leaf" -> << Ev("predict", tr.id, None, c, c, FALSE, None, None) >>
      [] tr.kind \in {"ens", "online"} -> CatAll([j \in DOMAIN tr.kids |-> PredEv(tr.kids[j], c, fh)])
      [] tr.kind = "mux"  -> PredEv(tr.kids[tr.sel], c, fh)
      [] tr.kind = "pipe" ->
            PredEv(tr.kids[1], c, fh)
            \o CatAll([k \in DOMAIN tr.ts |->                                  \* inverse in reverse order
                  LET t == Reverse(tr.ts)[k] IN
                  IF Skip(t) THEN << >>
                  ELSE << Ev("tinverse", t, None, 0, 0, FALSE, None, None) >>])
      [] tr.kind = "stack" ->
            CatAll([j \in DOMAIN tr.kids |-> PredEv(tr.kids[j], c, fh)])
            \o << Ev("mpredict", 0, None, 0, 0, FALSE,
                     [i \in DOMAIN fh |-> [j \in DOMAIN tr.kids |-> MemberTok(tr.kids[j], c, i)]], None) >>
RECURSIVE UpdEv(_, _, _, _, _)
UpdEv(tr, rep, lo, hi, upd) ==
    CASE tr.kind = "leaf" -> << Ev("update", tr.id, rep, lo, hi, upd, None, None) >>
      [] tr.kind = "ens"  -> CatAll([j \in DOMAIN tr.kids |-> UpdEv(tr.kids[j], rep, lo, hi, upd)])
      [] tr.kind = "mux"  -> UpdEv(tr.kids[tr.sel], rep, lo, hi, upd)
      [] tr.kind = "stack" -> CatAll([j \in DOMAIN tr.kids |-> UpdEv(tr.kids[j], rep, lo, hi, upd)])
      [] tr.kind = "online" ->
            \* the members forecast the new observations lo..hi from the cutoff before them (batches are consecutive:
            \* lo - 1), the algorithm compares forecasts and observations, then the members are updated
            LET steps == [i \in 1..(hi - lo + 1) |-> i] IN
            CatAll([j \in DOMAIN tr.kids |-> PredEv(tr.kids[j], lo - 1, steps)])
            \o << Ev("ascore", 0, None, lo, hi, FALSE,
                     [j \in DOMAIN tr.kids |-> [i \in DOMAIN steps |-> MemberTok(tr.kids[j], lo - 1, i)]],
                     [i \in DOMAIN steps |-> YTok(lo - 1 + i)]) >>
            \o CatAll([j \in DOMAIN tr.kids |-> UpdEv(tr.kids[j], rep, lo, hi, upd)])
      [] tr.kind = "pipe" ->
            CatAll([k \in DOMAIN tr.ts |->
                      (IF HasUpdate(tr.ts[k])
                       THEN << Ev("tupdate", tr.ts[k], rep \o Prefix(tr.ts, k - 1), lo, hi, upd, None, None) >>
                       ELSE << >>)
                      \o << Ev("ttransform", tr.ts[k], rep \o Prefix(tr.ts, k - 1), lo, hi, FALSE, None, None) >>])
            \o UpdEv(tr.kids[1], rep \o tr.ts, lo, hi, upd)

(* A scenario: fit on 0..n-1 with horizon fh, then batches, then predict.    *)
RECURSIVE UpdAll(_, _, _)
UpdAll(tr, ups, k) == IF k > Len(ups) THEN << >>
                      ELSE UpdEv(tr, None, ups[k].lo, ups[k].hi, ups[k].upd) \o UpdAll(tr, ups, k + 1)
Cutoff(c) == IF Len(c.ups) = 0 THEN c.n - 1 ELSE LastS(c.ups).hi
\* c.resel > 0 (multiplexer only): after the first fit the selection is changed with set_params and the
\* composite is fitted again; from then on it must behave exactly like the newly selected member
EffTree(c) == IF c.resel > 0 THEN [c.tree EXCEPT !.sel = c.resel] ELSE c.tree
ExpectedCompose(c) ==
    LET t2 == EffTree(c) IN
    [events |-> FitEv(c.tree, None, 0, c.n - 1, c.fh)
                \o (IF c.resel > 0 THEN FitEv(t2, None, 0, c.n - 1, c.fh) ELSE << >>)
                \o UpdAll(t2, c.ups, 1) \o PredEv(t2, Cutoff(c), c.fh),
     ret |-> [i \in DOMAIN c.fh |-> LET v == Val(t2, Cutoff(c), i, 1) IN <<v[1], v[2]>>],
     index |-> [i \in DOMAIN c.fh |-> Cutoff(c) + c.fh[i]],
     protos_unfitted |-> TRUE, independent |-> TRUE,
     alpha_ok |-> TRUE]        \* a multiplexer hands the requested interval level on to its selected member

(* ---- C09 clauses on any claimed event list ------------------------------ *)
\* the final forecaster of a pipeline only ever sees the fully transformed representation
RECURSIVE Chains(_, _)
\* set of <<leaf id, representation>> pairs the tree promises
Chains(tr, rep) ==
    CASE tr.kind = "leaf" -> { <<tr.id, rep>> }
      [] tr.kind = "pipe" -> Chains(tr.kids[1], rep \o tr.ts)
      [] OTHER -> UNION { Chains(tr.kids[j], rep) : j \in DOMAIN tr.kids }
FinalOnlySeesFullChain(c, o) ==
    \A p \in DOMAIN o.events :
        o.events[p].ev \in {"fit", "update"} => <<o.events[p].who, o.events[p].rep>> \in Chains(c.tree, None)
LeafIds(tr) == { x[1] : x \in Chains(tr, None) }
MuxOnlySelected(c, o) ==
    c.tree.kind = "mux" =>
        \A p \in DOMAIN o.events : o.events[p].ev \in {"fit", "update", "predict"}
                                    => o.events[p].who \in LeafIds(c.tree.kids[c.tree.sel])
                                                          \cup LeafIds(EffTree(c).kids[EffTree(c).sel])
StackHeldOut(c, o) ==
    c.tree.kind = "stack" =>
        \A p \in DOMAIN o.events : o.events[p].ev = "mfit" =>
            \A q \in 1..(p - 1) : o.events[q].ev = "fit" => o.events[q].hi < c.n - LastS(c.fh)
\* the forecasts an online ensemble is weighted by are made before any member has seen the observations they are
\* compared with: every member call between the previous scoring (or fit) and a scoring event is a predict from a
\* cutoff before the scored stretch
OnlineScoresUnseen(c, o) ==
    c.tree.kind = "online" =>
        \A p \in DOMAIN o.events : o.events[p].ev = "ascore" =>
            \A q \in 1..(p - 1) :
                /\ ((o.events[q].ev = "predict" /\ \A r \in (q + 1)..(p - 1) : o.events[r].ev = "predict")
                        => (o.events[q].hi < o.events[p].lo))
                /\ ((o.events[q].ev \in {"fit", "update"}) => (o.events[q].hi < o.events[p].lo))
CClauseNames == << "FinalOnlySeesFullChain", "MuxOnlySelected", "StackHeldOut", "OnlineScoresUnseen" >>
CClauseHolds(i, c, o) == CASE i = 1 -> FinalOnlySeesFullChain(c, o) [] i = 2 -> MuxOnlySelected(c, o) [] i = 3 -> StackHeldOut(c, o)
                           [] i = 4 -> OnlineScoresUnseen(c, o)
=============================================================================
