---------------------------- MODULE TraceEvaluate ----------------------------
EXTENDS Evaluate, Json, IOUtils
Trace == ndJsonDeserialize(IOEnv.TRACE_FILE)
VARIABLE l
TInit == l = 1
Failing(c, o) ==
    LET bad == { i \in DOMAIN EClauseNames : ~EClauseHolds(i, c, o) } IN
    IF bad = {} THEN "EventsOrRowsDiffer" ELSE EClauseNames[CHOOSE i \in bad : \A j \in bad : i <= j]
Verdict(e) ==
    LET exp == ExpectedEval(e.cfg) IN
    IF e.obs = exp THEN TRUE
    ELSE PrintT(<<"REJECT", e.tid,
                  IF e.obs.rej # exp.rej THEN (IF exp.rej THEN "ShouldReject" ELSE "ShouldAccept")
                  ELSE Failing(e.cfg, e.obs)>>)
TNext == \/ l <= Len(Trace) /\ Verdict(Trace[l]) /\ l' = l + 1
         \/ l = Len(Trace) + 1 /\ PrintT(<<"DONE", Len(Trace)>>) /\ l' = l + 1
TSpec == TInit /\ [][TNext]_l
=============================================================================
