----------------------------- MODULE Reduction -----------------------------
(***************************************************************************)
(* Reduction of forecasting to regression (property C05).                   *)
(*                                                                         *)
(* Values are tokens naming their origin:                                   *)
(*   Y(t)    = 1000 + t          observation of the target at time t        *)
(*   X(c,t)  = 1000*(c+2) + t    exogenous column c (1-based) at time t     *)
(*   P(k,j)  = 100000 + 100*k+j  output j (0-based) of the k-th predict     *)
(*                               call of the wrapped regressor              *)
(* A configuration is [strategy, n, w, fh, nx, upd]: series 0..n-1, window  *)
(* length w, strictly increasing positive steps fh, nx exogenous columns,   *)
(* upd further observations given by update(update_params=False) before     *)
(* predicting.  Expected(c) lists, in order, every fit call (feature rows,   *)
(* target rows) and predict call (input row) the wrapped regressor must      *)
(* receive, and the forecast returned with its time index.                   *)
(* Feature rows are variable-major: target window, then one window per       *)
(* exogenous column (the documented tabular layout); for a time-series       *)
(* regressor the same numbers arrive as a 3-d array [rows, 1+nx, w].         *)
(***************************************************************************)
EXTENDS Integers, Sequences, FiniteSets, TLC

Y(t) == 1000 + t
X(c, t) == 1000 * (c + 2) + t
P(k, j) == 100000 + 100 * k + j
LastOfS(s) == s[Len(s)]
RECURSIVE Concat(_)
Concat(ss) == IF Len(ss) = 0 THEN << >> ELSE Head(ss) \o Concat(Tail(ss))

YWin(s, w) == [k \in 1..w |-> Y(s + k - 1)]              \* w consecutive observations from time s
XWin(c, s, w) == [k \in 1..w |-> X(c, s + k - 1)]
Feat(s, w, nx) == YWin(s, w) \o Concat([c \in 1..nx |-> XWin(c, s, w)])

\* training rows for the largest step m: every full window whose targets all exist
NRows(n, w, m) == n - w - m + 1     \* windows starting at 0..n-w-m have all targets inside the series
Rows(n, w, m, nx) == [r \in 1..NRows(n, w, m) |-> Feat(r - 1, w, nx)]
Target(r, w, h) == Y(r - 1 + w + h - 1)                   \* exactly h steps after the end of the window

FhMax(c) == IF c.strategy = "recursive" THEN 1 ELSE LastOfS(c.fh)
Infeasible(c) == NRows(c.n, c.w, FhMax(c)) <= 0

Fits(c) ==
    LET m == FhMax(c)
        rows == Rows(c.n, c.w, m, c.nx)
        nr == NRows(c.n, c.w, m) IN
    CASE c.strategy = "direct" ->
           [i \in DOMAIN c.fh |-> [X |-> rows, y |-> [r \in 1..nr |-> <<Target(r, c.w, c.fh[i])>>], ydim |-> 1]]
      [] c.strategy = "multioutput" ->
           << [X |-> rows, y |-> [r \in 1..nr |-> [i \in DOMAIN c.fh |-> Target(r, c.w, c.fh[i])]], ydim |-> 2] >>
      [] c.strategy = "recursive" ->
           << [X |-> rows, y |-> [r \in 1..nr |-> <<Target(r, c.w, 1)>>], ydim |-> 1] >>
      [] c.strategy = "dirrec" ->
           [i \in DOMAIN c.fh |->
               [X |-> [r \in 1..nr |-> rows[r] \o [j \in 1..(i - 1) |-> Target(r, c.w, c.fh[j])]],
                y |-> [r \in 1..nr |-> <<Target(r, c.w, c.fh[i])>>], ydim |-> 1]]

Cut(c) == c.n - 1 + c.upd                                  \* cutoff at prediction time
LastFeat(c) == Feat(Cut(c) - c.w + 1, c.w, c.nx)
\* recursive step h: the window slides by h-1; target lags beyond the cutoff are earlier predictions
RecRow(c, h) ==
    LET s == Cut(c) - c.w + 1 + (h - 1) IN
    [k \in 1..c.w |-> IF s + k - 1 <= Cut(c) THEN Y(s + k - 1) ELSE P(s + k - 1 - Cut(c), 0)]
      \o Concat([x \in 1..c.nx |-> XWin(x, s, c.w)])
Preds(c) ==
    CASE c.strategy = "direct"      -> [i \in DOMAIN c.fh |-> LastFeat(c)]
      [] c.strategy = "multioutput" -> << LastFeat(c) >>
      [] c.strategy = "recursive"   -> [h \in 1..LastOfS(c.fh) |-> RecRow(c, h)]
      [] c.strategy = "dirrec"      -> [i \in DOMAIN c.fh |-> LastFeat(c) \o [j \in 1..(i - 1) |-> P(j, 0)]]
Ret(c) ==
    CASE c.strategy = "direct"      -> [i \in DOMAIN c.fh |-> P(i, 0)]
      [] c.strategy = "multioutput" -> [i \in DOMAIN c.fh |-> P(1, i - 1)]
      [] c.strategy = "recursive"   -> [i \in DOMAIN c.fh |-> P(c.fh[i], 0)]
      [] c.strategy = "dirrec"      -> [i \in DOMAIN c.fh |-> P(i, 0)]

Expected(c) ==
    IF Infeasible(c) THEN [rej |-> TRUE]
    ELSE [rej |-> FALSE, nvars |-> 1 + c.nx, fits |-> Fits(c), preds |-> Preds(c), ret |-> Ret(c),
          index |-> [i \in DOMAIN c.fh |-> Cut(c) + c.fh[i]]]

-----------------------------------------------------------------------------
(* The statement of C05 on any claimed observation o of configuration c.     *)
IsY(v) == v >= 1000 /\ v < 2000
TimeOf(v) == v % 1000
\* every training row: w consecutive target observations first
WindowConsecutive(c, o) ==
    \A f \in DOMAIN o.fits : \A r \in DOMAIN o.fits[f].X :
        LET row == o.fits[f].X[r] IN
        /\ Len(row) >= c.w
        /\ \A k \in 1..c.w : IsY(row[k])
        /\ \A k \in 1..(c.w - 1) : row[k + 1] = row[k] + 1
\* the target of the estimator for step h is the observation exactly h after the window's end
StepOf(c, f, j) == CASE c.strategy = "recursive" -> 1
                     [] c.strategy = "multioutput" -> c.fh[j]
                     [] OTHER -> c.fh[f]
TargetExactlyHAhead(c, o) ==
    \A f \in DOMAIN o.fits : \A r \in DOMAIN o.fits[f].X :
        /\ r \in DOMAIN o.fits[f].y
        /\ \A j \in DOMAIN o.fits[f].y[r] :
              o.fits[f].y[r][j] = o.fits[f].X[r][c.w] + StepOf(c, f, j)
\* all full windows are used exactly once, in time order
AllFullWindowsOnce(c, o) ==
    \A f \in DOMAIN o.fits :
        /\ Len(o.fits[f].X) = NRows(c.n, c.w, FhMax(c))
        /\ \A r \in DOMAIN o.fits[f].X : o.fits[f].X[r][1] = Y(r - 1)
\* no row contains its own target or any later value of the target series; exogenous values
\* are lagged too (none at or after the end of the window)
NoFuture(c, o) ==
    \A f \in DOMAIN o.fits : \A r \in DOMAIN o.fits[f].X :
        LET row == o.fits[f].X[r]
            endw == TimeOf(row[c.w]) IN
        \A k \in DOMAIN row :
            /\ (k <= c.w * (1 + c.nx)) => TimeOf(row[k]) <= endw
            /\ \A j \in DOMAIN o.fits[f].y[r] : row[k] # o.fits[f].y[r][j]
            /\ IsY(row[k]) => \A j \in DOMAIN o.fits[f].y[r] : row[k] < o.fits[f].y[r][j]
\* prediction inputs start from the last w observed values at the cutoff
PredictFromLastWindow(c, o) ==
    /\ Len(o.preds) > 0
    /\ \A k \in 1..c.w : o.preds[1][k] = Y(Cut(c) - c.w + k)
ForecastIsOutputForStep(c, o) == o.ret = Ret(c) /\ o.index = [i \in DOMAIN c.fh |-> Cut(c) + c.fh[i]]

RClauseNames == << "WindowConsecutive", "TargetExactlyHAhead", "AllFullWindowsOnce", "NoFuture",
                   "PredictFromLastWindow", "ForecastIsOutputForStep" >>
RClauseHolds(i, c, o) ==
    CASE i = 1 -> WindowConsecutive(c, o)   [] i = 2 -> TargetExactlyHAhead(c, o)
      [] i = 3 -> AllFullWindowsOnce(c, o)  [] i = 4 -> NoFuture(c, o)
      [] i = 5 -> PredictFromLastWindow(c, o) [] i = 6 -> ForecastIsOutputForStep(c, o)
RAllClauses(c, o) == o.rej \/ \A i \in DOMAIN RClauseNames : RClauseHolds(i, c, o)
=============================================================================
