---------------------------- MODULE MCPanelTransf ----------------------------
EXTENDS PanelTransf, TLC, Json
CONSTANTS MaxInst, MaxT, EmitVectors
VARIABLES stage, cfg
vars == <<stage, cfg>>
Val(i, c, t, salt) == ((7 * i + 3 * c + 5 * t * t + t + 4 * salt * (t + i)) % 11) - 3
PanelCD(lens, ncol, salt, cd) == [i \in DOMAIN lens |-> [c \in 1..ncol |->
                                    [t \in 1..(IF c = 2 THEN lens[i] - cd ELSE lens[i]) |-> Val(i, c, t, salt)]]]
Panel(lens, ncol, salt) == [i \in DOMAIN lens |-> [c \in 1..ncol |-> [t \in 1..lens[i] |-> Val(i, c, t, salt)]]]
NoP == [L |-> 0, fill |-> 0, lo |-> 0, hi |-> 0, k |-> 1, w |-> 1, method |-> "", const |-> 0, iv |-> << >>, fit |-> 0, half |-> 0, adj |-> 0]
Init == stage = "op" /\ cfg = [op |-> "", p |-> NoP, X |-> << >>]
LenSets == UNION { [1..n -> 3..MaxT] : n \in 1..MaxInst }
PickOp ==
    /\ stage = "op"
    /\ \/ \E lens \in LenSets, nc \in 1..2, salt \in 0..1, L \in {0, MaxT, MaxT + 2}, fill \in {0, 7}, f \in {0, MaxT + 1}, hf \in 0..1 :
            /\ (f # 0 => L = 0)                       \* fitted on another, longer panel: only matters without a pad_length
            /\ (hf = 1 => (fill = 7 /\ f = 0))
            /\ cfg' = [op |-> "pad", p |-> [NoP EXCEPT !.L = L, !.fill = fill, !.fit = f, !.half = hf], X |-> Panel(lens, nc, salt)]
       \/ \E lens \in LenSets, nc \in 1..2, salt \in 0..1, lh \in {<<0, 0>>, <<2, 0>>, <<3, 0>>, <<1, 3>>, <<2, 3>>, <<0, 2>>, <<0, 3>>}, f \in {0, 2} :
            /\ (f # 0 => lh = <<0, 0>>)                \* fitted on another panel with a shorter series
            /\ cfg' = [op |-> "truncate", p |-> [NoP EXCEPT !.lo = lh[1], !.hi = lh[2], !.fit = f], X |-> Panel(lens, nc, salt)]
       \/ \E lens \in LenSets, nc \in 1..2, salt \in 0..1, L \in 1..(MaxT + 1) :
            cfg' = [op |-> "interpolate", p |-> [NoP EXCEPT !.L = L], X |-> Panel(lens, nc, salt)]
       \/ \E n \in 1..MaxInst, len \in 3..MaxT, nc \in 1..2, salt \in 0..1, o \in {"tabularize", "concat", "row_mean"}, cd \in 0..1 :
            \* cd = 1: the second variable was observed one time point less than the first (in every instance)
            /\ (cd = 1 => (nc = 2 /\ o # "row_mean"))     \* the row-wise mean goes through a 3-d array: one length for all
            /\ cfg' = [op |-> o, p |-> NoP, X |-> PanelCD([i \in 1..n |-> len], nc, salt, cd)]
       \/ \E n \in 1..MaxInst, len \in 3..(MaxT + 2), salt \in 0..2, k \in 1..(MaxT + 2) :
            k <= len /\ cfg' = [op |-> "paa", p |-> [NoP EXCEPT !.k = k], X |-> Panel([i \in 1..n |-> len], 1, salt)]
       \/ \E n \in 1..MaxInst, len \in 3..(MaxT + 2), salt \in 0..1, k \in 1..4 :
            2 * k <= len /\ cfg' = [op |-> "intervals", p |-> [NoP EXCEPT !.k = k], X |-> Panel([i \in 1..n |-> len], 1, salt)]
       \/ \E n \in 1..MaxInst, len \in 3..MaxT, salt \in 0..1, w \in 1..5 :
            cfg' = [op |-> "sliding", p |-> [NoP EXCEPT !.w = w], X |-> Panel([i \in 1..n |-> len], 1, salt)]
       \/ \E len \in 4..(MaxT + 1), salt \in 0..3, m \in {"ffill", "bfill", "constant", "mean", "median", "linear", "drift"},
             miss \in SUBSET (1..(MaxT + 1)) :
            /\ miss # {} /\ Cardinality(miss) <= 2 /\ \A x \in miss : x <= len
            /\ cfg' = [op |-> "impute", p |-> [NoP EXCEPT !.method = m, !.const = 7],
                       X |-> << << [t \in 1..len |-> IF t \in miss THEN MISS ELSE Val(1, 1, t, salt)] >> >>]
       \/ \E len \in 5..(MaxT + 3), salt \in 0..3, k \in 1..3, a \in 0..1 :
            cfg' = [op |-> "acf", p |-> [NoP EXCEPT !.k = k, !.adj = a], X |-> Panel(<<len>>, 1, salt)]
       \/ \E len \in 3..(MaxT + 1), salt \in 0..3 :
            cfg' = [op |-> "minmax", p |-> NoP, X |-> Panel(<<len>>, 1, salt)]
    /\ stage' = "done"
Next == PickOp
Spec == Init /\ [][Next]_vars
Done == stage = "done"
\* a constant series has no variation: acf / minmax are undefined there, and truncation ranges must fit
Valid(c) ==
    CASE c.op \in {"acf", "minmax"} -> Cardinality({c.X[1][1][t] : t \in DOMAIN c.X[1][1]}) > 1
      [] c.op = "truncate" -> (c.p.hi = 0 => c.p.lo <= MinLen(c.X)) /\ (c.p.hi # 0 => c.p.hi <= MinLen(c.X))
      [] c.op = "pad" -> (c.p.L = 0 \/ c.p.L >= MaxLen(c.X))
      [] OTHER -> TRUE
Inv_OneRowPerInstance == (Done /\ Valid(cfg)) => OneRowPerInstance(cfg, Out(cfg))
Inv_ExactRequestedLength == (Done /\ Valid(cfg)) => ExactRequestedLength(cfg, Out(cfg))
\* imputation leaves observed values untouched and fills every gap
Inv_ImputeKeepsObserved ==
    (Done /\ cfg.op = "impute") =>
        LET s == cfg.X[1][1] o == Out(cfg)[1][1] IN \A t \in DOMAIN s : s[t] # MISS => o[t] = R(s[t])
\* PAA frames average to the series mean (equal frames tile the series)
Inv_PaaPreservesMean ==
    (Done /\ cfg.op = "paa") =>
        \A i \in DOMAIN cfg.X :
            LET o == Out(cfg)[i][1] IN MeanN([f \in DOMAIN o |-> <<o[f][1], o[f][2], 0>>]) = MeanOf(cfg.X[i][1])
Emit == (Done /\ EmitVectors /\ Valid(cfg)) => PrintT(ToJson([case |-> cfg, out |-> Out(cfg)]))
=============================================================================
