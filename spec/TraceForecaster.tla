--------------------------- MODULE TraceForecaster ---------------------------
(* Trace validation against MCForecaster's own actions.  A trace file holds   *)
(* many traces (tid); each event carries the call's arguments and what the     *)
(* implementation showed afterwards (rejected?, is_fitted, cutoff, returned    *)
(* index, update_predict cells).  An event is accepted iff the specification's *)
(* action with those arguments is enabled and produces exactly that snapshot.  *)
EXTENDS MCForecaster, IOUtils

Trace == ndJsonDeserialize(IOEnv.TRACE_FILE)
VARIABLES l, st
tvars == <<vars, l, st>>

TInit == /\ fitted = FALSE /\ obs = EmptyObs /\ cutoff = -1 /\ sfh = NoFh /\ epoch = EmptyObs
         /\ mode = "opt" /\ hist = << >> /\ mknown = FALSE /\ l = 1 /\ st = "reset"

Reset == /\ st = "reset" /\ l <= Len(Trace)
         /\ fitted' = FALSE /\ obs' = EmptyObs /\ cutoff' = -1 /\ sfh' = NoFh /\ epoch' = EmptyObs
          /\ mode' = Trace[l].mode /\ hist' = << >> /\ mknown' = FALSE /\ st' = "run" /\ UNCHANGED l

Act(e) == CASE e.op = "fit"         -> Fit(e.lo, e.hi, e.fh)
            [] e.op = "update"      -> Update(e.lo, e.hi, e.upd)
            [] e.op = "predict"     -> Predict(e.fh)
            [] e.op = "ups"         -> UpdatePredictSingle(e.lo, e.hi, e.upd, e.fh)
            [] e.op = "upd_predict" -> UpdatePredict(e.hi, e.cv, e.upd)

X == hist'[Len(hist')].exp
M_Rej(e)    == e.obs.rej = X.rej
M_Fitted(e) == e.obs.fitted = X.fitted
M_Cutoff(e) == X.fitted => e.obs.cutoff = X.cutoff   \* the cutoff of an unfitted forecaster is not part of the property
M_Index(e)  == X.rej \/ e.obs.times = X.times
M_Cells(e)  == X.rej \/ e.obs.cells = [k \in DOMAIN X.cells |-> [cut |-> X.cells[k].cut, times |-> X.cells[k].times]]
Matches(e) == M_Rej(e) /\ M_Fitted(e) /\ M_Cutoff(e) /\ M_Index(e) /\ M_Cells(e)

FailClause(e) ==
    IF ~ENABLED Act(e) THEN "NoSpecActionEnabled"
    ELSE IF ~ENABLED (Act(e) /\ M_Rej(e)) THEN "RejectedOrAccepted"
    ELSE IF ~ENABLED (Act(e) /\ M_Fitted(e)) THEN "FittedFlag"
    ELSE IF ~ENABLED (Act(e) /\ M_Cutoff(e)) THEN "Cutoff"
    ELSE IF ~ENABLED (Act(e) /\ M_Index(e)) THEN "PredictIndex"
    ELSE "UpdatePredictCells"

NextSt(k) == IF k > Len(Trace) THEN "end" ELSE IF Trace[k].i = 1 THEN "reset" ELSE "run"

Step == /\ st = "run" /\ l <= Len(Trace)
        /\ LET e == Trace[l] IN
             \/ /\ Act(e) /\ Matches(e)
                /\ l' = l + 1 /\ st' = NextSt(l + 1)
             \/ /\ ~ENABLED (Act(e) /\ Matches(e))
                /\ PrintT(<<"REJECT", e.tid, FailClause(e)>>)
                /\ UNCHANGED vars /\ l' = l + 1 /\ st' = "skip"
Skip == /\ st = "skip"
        /\ IF l > Len(Trace) THEN st' = "end" /\ l' = l
           ELSE IF Trace[l].i = 1 THEN st' = "reset" /\ l' = l
           ELSE st' = "skip" /\ l' = l + 1
        /\ UNCHANGED vars
End == st = "end" /\ PrintT(<<"DONE", Len(Trace)>>) /\ st' = "finished" /\ UNCHANGED <<vars, l>>
TNext == Reset \/ Step \/ Skip \/ End
TSpec == TInit /\ [][TNext]_tvars
=============================================================================
