----------------------------- MODULE MCHorizon -----------------------------
(* Exhaustive bounded model of Horizon.tla.  The raw input is built one     *)
(* element at a time (so every ORDER of every duplicate-free selection is   *)
(* a distinct state), then a fault may be injected, then cutoff and form.   *)
EXTENDS Horizon, TLC, Json

CONSTANTS LoNeg, Hi, MaxLen, Cutoffs, EmitVectors
Lo == -LoNeg
CutoffsQuick == {-4, 0, 3}
CutoffsThorough == {-4, -1, 0, 2, 6}

VARIABLES stage, raw, cut
vars == <<stage, raw, cut>>

Kinds(v) == {"list", "array", "index"} \cup (IF Len(v) = 1 THEN {"int"} ELSE {})
                \cup (IF Len(v) >= 2 /\ \A i \in 1..(Len(v) - 1) : v[i + 1] - v[i] = v[2] - v[1] THEN {"range"} ELSE {})
                \* an arithmetic progression (ascending or descending) can be given as a RangeIndex

Init == stage = "build" /\ raw = [kind |-> "list", vals |-> << >>, rel |-> TRUE, fault |-> "none"] /\ cut = 0

AddStep == /\ stage = "build" /\ Len(raw.vals) < MaxLen
           /\ \E x \in (Lo..Hi) \ ToSet(raw.vals) : raw' = [raw EXCEPT !.vals = Append(@, x)]
           /\ UNCHANGED <<stage, cut>>
\* finish a valid input: choose container kind, form and cutoff
Finish == /\ stage = "build" /\ Len(raw.vals) > 0
          /\ \E k \in Kinds(raw.vals), r \in BOOLEAN, c \in Cutoffs :
                 raw' = [raw EXCEPT !.kind = k, !.rel = r] /\ cut' = c
          /\ stage' = "done"
\* finish with a fault
Duplicate == /\ stage = "build" /\ Len(raw.vals) > 0 /\ Len(raw.vals) < MaxLen
             /\ \E i \in DOMAIN raw.vals, k \in {"list", "array", "index"}, r \in BOOLEAN :
                    raw' = [raw EXCEPT !.vals = Append(@, @[i]), !.fault = "dup", !.kind = k, !.rel = r]
             /\ cut' = 0 /\ stage' = "done"
Fraction == /\ stage = "build" /\ Len(raw.vals) > 0
            /\ \E k \in {"list", "array"} : raw' = [raw EXCEPT !.fault = "frac", !.kind = k]
            /\ cut' = 0 /\ stage' = "done"
BadType == /\ stage = "build" /\ Len(raw.vals) \in 1..2
           /\ \E k \in {"str", "float", "tuple", "set", "none", "strlist", "dict"} :
                  raw' = [raw EXCEPT !.fault = "badtype", !.kind = k]
           /\ cut' = 0 /\ stage' = "done"
\* time points (periods, dates) are values an ABSOLUTE horizon may hold; given as steps of a relative one they are of the wrong type
BadTypeRel == /\ stage = "build" /\ Len(raw.vals) \in 1..2
              /\ \E k \in {"period", "datetime"} : raw' = [raw EXCEPT !.fault = "badtype", !.kind = k, !.rel = TRUE]
              /\ cut' = 0 /\ stage' = "done"
Next == AddStep \/ Finish \/ Duplicate \/ Fraction \/ BadType \/ BadTypeRel
Spec == Init /\ [][Next]_vars

Done == stage = "done"
Start == cut - 2
Exp == Expected(raw, cut, Start)

Inv_StoredSorted            == (Done /\ ~Exp.rej) => StoredSorted(raw, cut, Exp)
Inv_AbsIsCutoffPlusSteps    == (Done /\ ~Exp.rej) => AbsIsCutoffPlusSteps(raw, cut, Exp)
Inv_RoundTrip               == (Done /\ ~Exp.rej) => RoundTrip(raw, cut, Exp)
Inv_PartitionAtZero         == (Done /\ ~Exp.rej) => PartitionAtZero(raw, cut, Exp)
Inv_PredicatesAgree         == (Done /\ ~Exp.rej) => PredicatesAgree(raw, cut, Exp)
Inv_IndexerIsStepsMinusOne  == (Done /\ ~Exp.rej) => IndexerIsStepsMinusOne(raw, cut, Exp)
Inv_RejectsNotCoerces       == (Done /\ raw.fault # "none") => Exp.rej
Inv_ValidAccepted           == (Done /\ raw.fault = "none") => ~Exp.rej
Emit == (Done /\ EmitVectors) => PrintT(ToJson([raw |-> raw, cut |-> cut, start |-> Start, exp |-> Exp]))
=============================================================================
