#!/bin/sh
# Offline setup: syntax-check every TLA+ module, byte-compile the harness, verify the shim imports /repo's sktime.
cd "$(dirname "$0")" || exit 2
set -e
export PYTHONHASHSEED=0 PYTHONPATH="$PWD:/repo" PYTHONDONTWRITEBYTECODE=1
for f in spec/*.tla; do
  (cd spec && java -cp /opt/veriftools/tla/tla2tools.jar:/opt/veriftools/tla/CommunityModules-deps.jar tla2sany.SANY "$(basename "$f")" > /tmp/sany.$$ 2>&1) || { cat /tmp/sany.$$; rm -f /tmp/sany.$$; echo "SANY failed: $f"; exit 1; }
  if grep -q "errors\|Errors" /tmp/sany.$$; then cat /tmp/sany.$$; rm -f /tmp/sany.$$; echo "SANY errors: $f"; exit 1; fi
done
rm -f /tmp/sany.$$
/venv/bin/python -m compileall -q harness > /dev/null
/venv/bin/python -c "import harness.compat as c; c.assert_repo_sktime(); print('setup ok')"
